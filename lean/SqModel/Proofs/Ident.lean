/-
Callsign slicing: the nibble arithmetic of `ais` yields the eight 6-bit fields of bits 41..88.
-/
import SqModel.Proofs.Bits
import SqModel.Model.Fields
import SqModel.Spec.Ident

namespace Sq
open Spec

/-- first character of a three-digit group: digits i, i+1 -/
theorem field_char_hi (m : Msg) (h : AllNib m) (i : Nat) (hi : i + 1 < m.length) :
    field m (4 * i + 1) (4 * i + 6) = (nib m i <<< 2) ||| (nib m (i + 1) >>> 2) := by
  rw [field_via_take m h _ _ (by omega) (by omega)]
  have e1 : (4 * i + 6 - 1) / 4 + 1 = i + 2 := by omega
  have e2 : 3 - (4 * i + 6 - 1) % 4 = 2 := by omega
  have e3 : 4 * i + 6 + 1 - (4 * i + 1) = 6 := by omega
  rw [e1, e2, e3, natOf_take_succ m (i + 1) (by omega), natOf_take_succ m i (by omega)]
  have ha := nib_lt m h i; have hb := nib_lt m h (i + 1)
  generalize natOf (m.take i) = T
  generalize nib m i = a at *
  generalize nib m (i + 1) = b at *
  have hbit : ∀ a b : Fin 16, (a.val <<< 2) ||| (b.val >>> 2) = a.val * 4 + b.val / 4 := by decide
  rw [hbit ⟨a, ha⟩ ⟨b, hb⟩]
  simp
  omega

/-- second character of a three-digit group: digits i+1, i+2 -/
theorem field_char_lo (m : Msg) (h : AllNib m) (i : Nat) (hi : i + 2 < m.length) :
    field m (4 * i + 7) (4 * i + 12) = ((nib m (i + 1) &&& 3) <<< 4) ||| nib m (i + 2) := by
  rw [field_via_take m h _ _ (by omega) (by omega)]
  have e1 : (4 * i + 12 - 1) / 4 + 1 = i + 3 := by omega
  have e2 : 3 - (4 * i + 12 - 1) % 4 = 0 := by omega
  have e3 : 4 * i + 12 + 1 - (4 * i + 7) = 6 := by omega
  rw [e1, e2, e3, natOf_take_succ m (i + 2) (by omega), natOf_take_succ m (i + 1) (by omega)]
  have hb := nib_lt m h (i + 1); have hc := nib_lt m h (i + 2)
  generalize natOf (m.take (i + 1)) = T
  generalize nib m (i + 1) = b at *
  generalize nib m (i + 2) = c at *
  have hbit : ∀ b c : Fin 16, ((b.val &&& 3) <<< 4) ||| c.val = (b.val % 4) * 16 + c.val := by decide
  rw [hbit ⟨b, hb⟩ ⟨c, hc⟩]
  simp
  omega

theorem aisCodes_eq_chars48 (m : Msg) (h : AllNib m) (hl : 22 ≤ m.length) : aisCodes m = chars48 m := by
  unfold aisCodes chars48
  simp only [List.range, List.range.loop, List.map_cons, List.map_nil]
  have a0 := field_char_hi m h 10 (by omega); have b0 := field_char_lo m h 10 (by omega)
  have a1 := field_char_hi m h 13 (by omega); have b1 := field_char_lo m h 13 (by omega)
  have a2 := field_char_hi m h 16 (by omega); have b2 := field_char_lo m h 16 (by omega)
  have a3 := field_char_hi m h 19 (by omega); have b3 := field_char_lo m h 19 (by omega)
  simp only [show 4 * 10 + 1 = 41 by decide, show 4 * 10 + 6 = 46 by decide, show 4 * 10 + 7 = 47 by decide,
    show 4 * 10 + 12 = 52 by decide, show 4 * 13 + 1 = 53 by decide, show 4 * 13 + 6 = 58 by decide,
    show 4 * 13 + 7 = 59 by decide, show 4 * 13 + 12 = 64 by decide, show 4 * 16 + 1 = 65 by decide,
    show 4 * 16 + 6 = 70 by decide, show 4 * 16 + 7 = 71 by decide, show 4 * 16 + 12 = 76 by decide,
    show 4 * 19 + 1 = 77 by decide, show 4 * 19 + 6 = 82 by decide, show 4 * 19 + 7 = 83 by decide,
    show 4 * 19 + 12 = 88 by decide, show 10 + 1 = 11 by decide, show 10 + 2 = 12 by decide,
    show 13 + 1 = 14 by decide, show 13 + 2 = 15 by decide, show 16 + 1 = 17 by decide, show 16 + 2 = 18 by decide,
    show 19 + 1 = 20 by decide, show 19 + 2 = 21 by decide] at a0 b0 a1 b1 a2 b2 a3 b3
  simp [← a0, ← b0, ← a1, ← b1, ← a2, ← b2, ← a3, ← b3]

/-- the character set: `ia5` yields a blank exactly for the codes that are not characters -/
def ia5Ok (c : Nat) : Bool :=
  match ia5Spec c with
  | some ch => ia5 c == ch && ch != ' '
  | none => ia5 c == ' '

theorem ia5_table : ∀ c : Fin 64, ia5Ok c.val = true := by decide +kernel

theorem filter_ia5_eq (codes : List Nat) (h : ∀ c ∈ codes, c < 64) :
    ((codes.map ia5).filter fun c => c != ' ') = codes.filterMap ia5Spec := by
  induction codes with
  | nil => rfl
  | cons c cs ih =>
    have hc : c < 64 := h c (by simp)
    have ht := ia5_table ⟨c, hc⟩
    simp only [List.map_cons, List.filter_cons, List.filterMap_cons]
    rw [ih (fun x hx => h x (by simp [hx]))]
    unfold ia5Ok at ht
    cases hs : ia5Spec c with
    | none => simp only [hs, beq_iff_eq] at ht; simp [ht]
    | some ch =>
      simp only [hs, Bool.and_eq_true, beq_iff_eq, bne_iff_ne] at ht
      simp [ht.1, ht.2]

theorem chars48_lt (m : Msg) : ∀ c ∈ chars48 m, c < 64 := by
  intro c hc
  unfold chars48 at hc
  rw [List.mem_map] at hc
  obtain ⟨i, _, rfl⟩ := hc
  have := field_lt m (41 + 6 * i) (46 + 6 * i)
  have e : 46 + 6 * i + 1 - (41 + 6 * i) = 6 := by omega
  rw [e] at this
  exact this

theorem ais_eq_spec (m : Msg) (h : AllNib m) (hl : 22 ≤ m.length) : ais m = some (callsignSpec m) := by
  unfold ais callsignSpec
  rw [aisCodes_eq_chars48 m h hl, filter_ia5_eq _ (chars48_lt m)]

theorem wake_eq_spec : ∀ tc : Fin 32, ∀ ca : Fin 8, wakeCategory (tc.val, ca.val) = wakeSpec tc.val ca.val := by
  decide +kernel

end Sq
