/-
Trap-freedom of the translated code (C01's arithmetic clause).

`Generated/TransSafe.lean` (regenerated from /repo's source on every run by `extract/rs2safe.py`) states, for every translated
function, the conjunction of the conditions under which none of its operations panics - unsigned subtraction, overflowing
`+`/`*`, over-wide shifts, indexing, `expect`/`unwrap`, division by zero, and the safety of every call it makes - each under the
path condition of its site.  This file proves those propositions under the hypotheses the callers establish: a vector of
nibbles (`AllNib`) of the length the downlink format needs.  A changed or new operation in the source changes the generated
proposition and the proof below has to go through again.
-/
import SqModel.Generated.TransSafe
import SqModel.Proofs.BridgeTable
import SqModel.Proofs.SafeCpr
import SqModel.Proofs.SafeReminder

namespace Sq.Safe
open Sq Bridge Spec

theorem bit_location_safe (p : Nat) (h : 1 ≤ p) : T.bit_location.safe p := by
  unfold T.bit_location.safe; exact ⟨h, h⟩

/-- every read of bits `sb..eb` that lies inside the vector is trap-free -/
theorem range_value_safe (m : Msg) (sb eb : Nat) (h1 : 1 ≤ sb) (h2 : 1 ≤ eb) (h3 : eb ≤ 4 * m.length) (hl : m.length < 2 ^ 32) :
    T.range_value.safe m sb eb := by
  unfold T.range_value.safe
  simp only [bit_location_eq, bitLocation_eq]
  have hs : (sb - 1) % 4 < 4 := Nat.mod_lt _ (by decide)
  have he : (eb - 1) % 4 < 4 := Nat.mod_lt _ (by decide)
  have hb : (eb - 1) / 4 < m.length := by omega
  have hl' : m.length < 4294967296 := hl
  refine ⟨bit_location_safe sb h1, bit_location_safe eb h2, ?_⟩
  repeat' apply And.intro
  all_goals (intros; omega)


theorem flag_and_range_value_safe (m : Msg) (flag sb eb : Nat) (hf : flag ≤ 4 * m.length) (h1 : 1 ≤ sb) (h2 : 1 ≤ eb)
    (h3 : eb ≤ 4 * m.length) (hl : m.length < 2 ^ 32) : T.flag_and_range_value.safe m flag sb eb := by
  unfold T.flag_and_range_value.safe
  simp only [bit_location_eq, bitLocation_eq]
  have hm : (flag - 1) % 4 < 4 := Nat.mod_lt _ (by decide)
  refine ⟨fun h => bit_location_safe flag (by omega), ?_, ?_, ?_, range_value_safe m sb eb h1 h2 h3 hl⟩ <;> (intros; omega)

theorem status_flag_and_range_value_safe (m : Msg) (status flag sb eb : Nat) (hs : status ≤ 4 * m.length) (hf : flag ≤ 4 * m.length)
    (h1 : 1 ≤ sb) (h2 : 1 ≤ eb) (h3 : eb ≤ 4 * m.length) (hl : m.length < 2 ^ 32) :
    T.status_flag_and_range_value.safe m status flag sb eb := by
  unfold T.status_flag_and_range_value.safe
  simp only [bit_location_eq, bitLocation_eq]
  have hm : (status - 1) % 4 < 4 := Nat.mod_lt _ (by decide)
  refine ⟨fun h => bit_location_safe status (by omega), ?_, ?_, ?_, flag_and_range_value_safe m flag sb eb hf h1 h2 h3 hl⟩ <;> (intros; omega)

theorem get_downlink_format_safe (m : Msg) (h : 2 ≤ m.length) (hl : m.length < 2 ^ 32) : T.get_downlink_format.safe m :=
  range_value_safe m 1 5 (by decide) (by decide) (by omega) hl

/-- a field whose first bit is not after its last is always there -/
theorem range_value_isSome (m : Msg) (sb eb : Nat) (h1 : 1 ≤ sb) (h : sb ≤ eb) : (T.range_value m sb eb).isSome = true := by
  unfold T.range_value
  simp only [bit_location_eq, bitLocation_eq]
  have : ¬ ((eb - 1) / 4 < (sb - 1) / 4 ∨ ((eb - 1) / 4 = (sb - 1) / 4 ∧ (eb - 1) % 4 < (sb - 1) % 4)) := by omega
  simp [this]

theorem crc56_safe (m : Msg) (h : 8 ≤ m.length) (hl : m.length < 2 ^ 32) : T.crc56.safe m := by
  unfold T.crc56.safe
  exact ⟨range_value_safe m 1 32 (by decide) (by decide) (by omega) hl, range_value_isSome m 1 32 (by decide) (by decide)⟩

theorem crc112_safe (m : Msg) (h : 22 ≤ m.length) (hl : m.length < 2 ^ 32) : T.crc112.safe m := by
  unfold T.crc112.safe
  refine ⟨range_value_safe m 1 32 (by decide) (by decide) (by omega) hl, range_value_isSome m 1 32 (by decide) (by decide),
    range_value_safe m 33 64 (by decide) (by decide) (by omega) hl, range_value_isSome m 33 64 (by decide) (by decide),
    range_value_safe m 65 88 (by decide) (by decide) (by omega) hl, ?_⟩
  have := range_value_isSome m 65 88 (by decide) (by decide)
  simpa using this

/-- `get_crc` on a frame whose length fits its format -/
theorem get_crc_safe (m : Msg) (df : Nat) (h : (df ≤ 15 ∧ 8 ≤ m.length) ∨ (15 < df ∧ 22 ≤ m.length)) (hl : m.length < 2 ^ 32) :
    T.get_crc.safe m df := by
  unfold T.get_crc.safe
  constructor
  · intro hd; rcases h with h | h
    · exact crc56_safe m h.2 hl
    · omega
  · intro hd; rcases h with h | h
    · omega
    · exact crc112_safe m h.2 hl


/-- the length a frame has when the gate of `get_message` has let it through -/
def Fits (m : Msg) : Prop :=
  ∀ df, T.get_downlink_format m = some df → (df ≤ 15 ∧ m.length = 14) ∨ (16 ≤ df ∧ m.length = 28)

theorem parity_ok_safe (m : Msg) (h : 14 ≤ m.length) (hl : m.length ≤ 28) (hfit : Fits m) : T.parity_ok.safe m := by
  unfold T.parity_ok.safe
  have hlen : (m.length * 4) % 4294967296 = m.length * 4 := Nat.mod_eq_of_lt (by omega)
  have hl32 : m.length < 2 ^ 32 := by omega
  simp only [hlen]
  have hrv : T.range_value.safe m (m.length * 4 - 23) (m.length * 4) := range_value_safe m _ _ (by omega) (by omega) (by omega) hl32
  refine ⟨by omega, get_downlink_format_safe m (by omega) hl32, ?_, ?_, ?_, ?_, ?_, ?_⟩
  · intro o _ _; omega
  · intro o _ _; exact hrv
  · intro o ho h17
    split
    · apply get_crc_safe m o _ hl32
      rcases hfit o ho with ⟨a, b⟩ | ⟨a, b⟩ <;> [(rcases h17 with h17 | h17 <;> omega); (right; omega)]
    · trivial
  · intro o _ _; omega
  · intro o _ _; exact hrv
  · intro o ho h11
    split
    · apply get_crc_safe m 11 _ hl32
      left; exact ⟨by decide, by omega⟩
    · trivial


theorem ma_code_safe (m : Msg) (h : 8 ≤ m.length) : T.ma_code.safe m := by
  unfold T.ma_code.safe
  simp only [List.zipIdx]
  refine ⟨?_, ?_, ?_, ?_⟩ <;> (intro _ p hp; simp at hp; rcases hp with h | h | h | h | h | h | h | h | h | h | h | h | h | h <;> subst h <;> simp <;> omega)

theorem extract_bit_safe (v b : Nat) (h : b < 16) : T.extract_bit.safe v b := h

theorem graytobin_safe (m : Msg) (h : 8 ≤ m.length) : T.graytobin.safe m := by
  unfold T.graytobin.safe
  refine ⟨ma_code_safe m h, ?_, ?_, ?_, ?_, ?_, ?_, ?_, ?_, ?_, ?_⟩ <;> (split <;> first | (show _ < 16; decide) | trivial)

theorem clean_squitter_safe (cs : List Char) : T.clean_squitter.safe cs := by
  unfold T.clean_squitter.safe
  intro h
  omega


/-- **`get_message` never traps, on any line**: the gate itself establishes what its later stages need -/
theorem get_message_safe (cs : List Char) : T.get_message.safe cs := by
  unfold T.get_message.safe
  refine ⟨clean_squitter_safe cs, ?_, ?_, ?_⟩
  · split
    · rename_i m hm
      rw [Option.filter_eq_some_iff] at hm
      have hlen : m.length = 14 ∨ m.length = 28 := by simpa using hm.2
      exact get_downlink_format_safe m (by omega) (by omega)
    · trivial
  · split
    · rename_i m hm
      rw [Option.filter_eq_some_iff] at hm
      obtain ⟨hm, _⟩ := hm
      rw [Option.filter_eq_some_iff] at hm
      have hlen : m.length = 14 ∨ m.length = 28 := by simpa using hm.2
      exact reminder_safe m (by omega) (by omega)
    · trivial
  · split
    · rename_i m hm
      rw [Option.filter_eq_some_iff] at hm
      obtain ⟨hm, _⟩ := hm
      rw [Option.filter_eq_some_iff] at hm
      obtain ⟨hm, hfit⟩ := hm
      rw [Option.filter_eq_some_iff] at hm
      have hlen : m.length = 14 ∨ m.length = 28 := by simpa using hm.2
      apply parity_ok_safe m (by omega) (by omega)
      intro df hdf
      rw [hdf] at hfit
      by_cases h15 : df ≤ 15
      · left; simpa [h15] using hfit
      · right; simp [h15] at hfit; omega
    · trivial

theorem get_icao_safe (m : Msg) (df : Nat) (h : 14 ≤ m.length) (hl : m.length ≤ 28)
    (hfit : (df ≤ 15 ∧ 8 ≤ m.length) ∨ (15 < df ∧ 22 ≤ m.length)) : T.get_icao.safe m df := by
  unfold T.get_icao.safe
  have hlen : (m.length * 4) % 4294967296 = m.length * 4 := Nat.mod_eq_of_lt (by omega)
  have hl32 : m.length < 2 ^ 32 := by omega
  simp only [hlen]
  refine ⟨fun _ => by omega, fun _ => by omega, fun _ => range_value_safe m _ _ (by omega) (by omega) (by omega) hl32, ?_,
    fun _ => range_value_safe m 9 32 (by decide) (by decide) (by omega) hl32⟩
  intro _
  split
  · exact get_crc_safe m df hfit hl32
  · trivial


/-! ### field decoders (a 112-bit frame of nibbles: `Long m`) -/

theorem u32ToI32_small (x : Nat) (h : x < 2147483648) : u32ToI32 x = (x : Int) := by
  unfold u32ToI32; simp [h]

/-- the value a `(flag, field)` extraction yields, with its bounds -/
theorem frv (m : Msg) (L : Long m) (flag sb eb : Nat) (hf : 1 ≤ flag) (hf2 : flag ≤ 112) (h1 : 1 ≤ sb) (h2 : sb ≤ eb) (h3 : eb ≤ 112) :
    ∃ f v, flagAndRangeValue m flag sb eb = some (f, v) ∧ f < 2 ∧ v < 2 ^ (eb + 1 - sb) := by
  have hl := L.len
  refine ⟨field m flag flag, field m sb eb, flagAndRangeValue_eq m L.nib flag sb eb hf (by omega) h1 h2 (by omega), ?_, field_lt m sb eb⟩
  have := field_lt m flag flag
  have e : flag + 1 - flag = 1 := by omega
  rw [e] at this; exact this

theorem me_code_safe (m : Msg) (L : Long m) : T.me_code.safe m := by
  unfold T.me_code.safe; have := L.len
  refine ⟨by omega, by omega, by omega, ?_⟩
  obtain ⟨f_, v_, hv_, _, hb_⟩ := frv m L 48 41 52 (by decide) (by decide) (by decide) (by decide) (by decide)
  rw [hv_]; simp only []
  have : v_ < 4096 := by simpa using hb_
  omega

theorem vertical_rate_value_safe (sign value : Nat) (h1 : 1 ≤ value) (h2 : value < 512) : T.vertical_rate_value.safe sign value := by
  unfold T.vertical_rate_value.safe
  refine ⟨h1, by omega, fun _ => ?_⟩
  have hb : (value - 1) <<< 6 < 2147483648 := by
    rw [Nat.shiftLeft_eq]; omega
  rw [u32ToI32_small _ hb]
  have : (0 : Int) ≤ (((value - 1) <<< 6 : Nat) : Int) := Int.natCast_nonneg _
  omega

theorem vertical_rate_safe (m : Msg) (L : Long m) : T.vertical_rate.safe m := by
  unfold T.vertical_rate.safe
  have hl := L.len
  refine ⟨by omega, by omega, by omega, ?_⟩
  obtain ⟨f, v, hv, _, hb⟩ := frv m L 69 70 78 (by decide) (by decide) (by decide) (by decide) (by decide)
  rw [hv]
  simp only [Option.filter]
  split
  · rename_i sign value heq
    split at heq
    · rename_i hne
      injection heq with heq; injection heq with e1 e2
      subst e1 e2
      exact vertical_rate_value_safe f v (by simp at hne; omega) (by simpa using hb)
    · cases heq
  · trivial

theorem version_safe (m : Msg) (L : Long m) : T.version.safe m := by
  unfold T.version.safe; have := L.len; omega

theorem surveillance_status_safe (m : Msg) (L : Long m) : T.surveillance_status.safe m := by
  unfold T.surveillance_status.safe; have := L.len; omega

theorem ground_movement_safe (m : Msg) (L : Long m) : T.ground_movement.safe m := by
  unfold T.ground_movement.safe; have := L.len; omega

theorem delta_safe (sign value : Nat) (h : value < 128) : T.delta.safe sign value := by
  unfold T.delta.safe
  rw [u32ToI32_small value (by omega)]
  have : (0 : Int) ≤ (value : Int) := Int.natCast_nonneg _
  have h' : (value : Int) < 128 := by exact_mod_cast h
  refine ⟨fun _ => by omega, fun _ => by omega, fun _ => by omega⟩

theorem altitude_delta_safe (m : Msg) (L : Long m) : T.altitude_delta.safe m := by
  unfold T.altitude_delta.safe
  have hl := L.len
  refine ⟨by omega, by omega, by omega, ?_⟩
  obtain ⟨f, v, hv, _, hb⟩ := frv m L 81 82 88 (by decide) (by decide) (by decide) (by decide) (by decide)
  rw [hv]
  simp only [Option.filter]
  split
  · rename_i sign value heq
    split at heq
    · injection heq with heq; injection heq with e1 e2
      subst e1 e2
      exact delta_safe f v (by simpa using hb)
    · cases heq
  · trivial

theorem altitude_gnss_safe (m : Msg) (L : Long m) : T.altitude_gnss.safe m := by
  unfold T.altitude_gnss.safe; have := L.len; omega


set_option hygiene false in
/-- unpack a `(flag, field)` extraction in the goal: afterwards the goal speaks about `f_ < 2` and `v_ < 2^width` -/
macro "frv_cases" m:term:max L:term:max f:num s:num e:num : tactic =>
  `(tactic| (obtain ⟨f_, v_, hv_, hf_, hb_⟩ := frv $m $L $f $s $e (by decide) (by decide) (by decide) (by decide) (by decide)
             simp only [hv_, Option.filter]
             simp only [Nat.reducePow, Nat.reduceAdd, Nat.reduceSub] at hb_))

theorem maCode_lt (m : Msg) : maCode m < 16384 := by
  unfold maCode
  simp only [Gen.maBitPositions, Gen.maTopShift, List.zipIdx, List.foldl_cons, List.foldl_nil]
  have hb : ∀ x s : Nat, s ≤ 13 → (x &&& 1) <<< s < 2 ^ 14 := by
    intro x s hs
    have h1 : x &&& 1 ≤ 1 := Nat.and_le_right
    have : x &&& 1 < 2 ^ 1 := by omega
    exact Nat.lt_of_lt_of_le (shl_lt (b := s) this) (Nat.pow_le_pow_right (by decide) (by omega))
  have e : (16384 : Nat) = 2 ^ 14 := by decide
  rw [e]
  repeat (first | apply Nat.or_lt_two_pow | exact hb _ _ (by decide) | exact Nat.two_pow_pos 14)


theorem grayLoop_inv (n : Nat) (l : List Nat) : ∀ st : Nat × Bool × Nat, st.1 ≤ 128 → st.2.2 < 256 →
    (l.foldl (fun (st : Nat × Bool × Nat) _ =>
      let (mask, cp, result) := st
      let cp := if n &&& mask != 0 then !cp else cp
      let result := if cp then result ||| mask else result
      (mask >>> 1, cp, result)) st).2.2 < 256 := by
  induction l with
  | nil => intro st _ h; exact h
  | cons x xs ih =>
    intro st h1 h2
    obtain ⟨mask, cp, result⟩ := st
    simp only [List.foldl_cons]
    apply ih
    · simp only [Nat.shiftRight_eq_div_pow]; simp at h1 ⊢; omega
    · have hor : result ||| mask < 256 := by
        have : result ||| mask < 2 ^ 8 := Nat.or_lt_two_pow (by simpa using h2) (by simp at h1; omega)
        simpa using this
      have h2' : result < 256 := h2
      simp only
      repeat' split
      all_goals first | exact hor | exact h2'

theorem grayLoop_lt (n : Nat) : grayLoop n < 256 := by
  unfold grayLoop
  exact grayLoop_inv n (List.range 16) (0x80, false, 0) (by decide) (by decide)

theorem graytobin_bounds (m : Msg) : (Sq.graytobin m).1 < 32 ∧ (Sq.graytobin m).2 ≤ 4 := by
  unfold Sq.graytobin graytobinOfCode
  simp only
  constructor
  · have := grayLoop_lt (extractBit (maCode m) 4 <<< 10 ||| extractBit (maCode m) 2 <<< 9 ||| extractBit (maCode m) 12 <<< 8 |||
      extractBit (maCode m) 10 <<< 7 ||| extractBit (maCode m) 8 <<< 6 ||| extractBit (maCode m) 7 <<< 5 ||| extractBit (maCode m) 5 <<< 4 |||
      extractBit (maCode m) 3 <<< 3 ||| extractBit (maCode m) 13 <<< 2 ||| extractBit (maCode m) 11 <<< 1 ||| extractBit (maCode m) 13)
    rw [Nat.shiftRight_eq_div_pow]; omega
  · repeat' split
    all_goals omega


theorem altitude_value_safe (m : Msg) (code : Option Nat) (hc : ∀ c, code = some c → c < 65536) : T.altitude_value.safe m code := by
  unfold T.altitude_value.safe
  obtain ⟨hh, hlow⟩ := graytobin_bounds m
  cases code with
  | none => simp
  | some c =>
    have hcb := hc c rfl
    have h7 : c >>> 7 < 512 := by rw [Nat.shiftRight_eq_div_pow]; omega
    have hq : (c >>> 7) <<< 4 ||| (c >>> 2 &&& 0b1111) < 2 ^ 13 := by
      apply Nat.or_lt_two_pow
      · rw [Nat.shiftLeft_eq]; omega
      · have : c >>> 2 &&& 0b1111 ≤ 0b1111 := Nat.and_le_right
        omega
    simp only
    generalize Sq.graytobin m = g at hh hlow
    obtain ⟨high, low⟩ := g
    simp only at hh hlow
    refine ⟨?_, ?_, ?_, ?_, ?_, ?_, ?_, ?_⟩ <;> (intros; first | omega | (simp only [Nat.reducePow] at hq ⊢; omega))

theorem altitude_safe (m : Msg) (df : Nat) (L : df = 17 → Long m) : T.altitude.safe m df := by
  unfold T.altitude.safe
  refine ⟨fun h => me_code_safe m (L h), ?_⟩
  apply altitude_value_safe
  intro c hc
  by_cases h17 : df = 17
  · simp only [h17, if_true] at hc
    have e := Bridge.me_code_eq m
    rw [e] at hc
    unfold meCode at hc
    cases hq : flagAndRangeValue m 48 41 52 with
    | none => rw [hq] at hc; cases hc
    | some fv => rw [hq] at hc; injection hc with hc; rw [← hc]; exact Nat.mod_lt _ (by decide)
  · simp only [h17, if_false, maCodeOpt] at hc
    injection hc with hc
    have := maCode_lt m
    omega

theorem squawk_safe (m : Msg) : T.squawk.safe m := by
  unfold T.squawk.safe
  simp only [maCodeOpt]
  have hb : ∀ a b c : Nat, (((a &&& 1) <<< 2) ||| ((b &&& 1) <<< 1)) ||| (c &&& 1) < 8 := by
    intro a b c
    have h1 : a &&& 1 ≤ 1 := Nat.and_le_right
    have h2 : b &&& 1 ≤ 1 := Nat.and_le_right
    have h3 : c &&& 1 ≤ 1 := Nat.and_le_right
    have : (((a &&& 1) <<< 2) ||| ((b &&& 1) <<< 1)) ||| (c &&& 1) < 2 ^ 3 := by
      apply Nat.or_lt_two_pow
      · apply Nat.or_lt_two_pow <;> (rw [Nat.shiftLeft_eq]; omega)
      · omega
    simpa using this
  generalize maCode m = code
  have h1 := hb (code >>> 8) (code >>> 10) (code >>> 12)
  have h2 := hb (code >>> 3) (code >>> 5) (code >>> 7)
  have h3 := hb (code >>> 9) (code >>> 11) (code >>> 13)
  have h4 := hb (code >>> 2) (code >>> 4) (code >>> 6)
  have b2 : (code >>> 2) &&& 1 ≤ 1 := Nat.and_le_right
  have b3 : (code >>> 3) &&& 1 ≤ 1 := Nat.and_le_right
  have b4 : (code >>> 4) &&& 1 ≤ 1 := Nat.and_le_right
  have b5 : (code >>> 5) &&& 1 ≤ 1 := Nat.and_le_right
  have b8 : (code >>> 8) &&& 1 ≤ 1 := Nat.and_le_right
  have b9 : (code >>> 9) &&& 1 ≤ 1 := Nat.and_le_right
  have b10 : (code >>> 10) &&& 1 ≤ 1 := Nat.and_le_right
  have b11 : (code >>> 11) &&& 1 ≤ 1 := Nat.and_le_right
  and_intros <;> omega

theorem threat_encounter_safe (m : Msg) (L : Long m) : T.threat_encounter.safe m := by
  unfold T.threat_encounter.safe; have := L.len; omega

theorem ia5_safe (c : Nat) : T.ia5.safe c := trivial

theorem ais_safe (m : Msg) (L : Long m) : T.ais.safe m := by
  unfold T.ais.safe
  have := L.len
  have n10 := nib_lt m L.nib 10; have n13 := nib_lt m L.nib 13; have n16 := nib_lt m L.nib 16; have n19 := nib_lt m L.nib 19
  have a11 : nib m 11 &&& 3 ≤ 3 := Nat.and_le_right
  have a14 : nib m 14 &&& 3 ≤ 3 := Nat.and_le_right
  have a17 : nib m 17 &&& 3 ≤ 3 := Nat.and_le_right
  have a20 : nib m 20 &&& 3 ≤ 3 := Nat.and_le_right
  and_intros
  all_goals first | omega | (intro p _; trivial)

theorem wake_safe (vc : Nat × Nat) : T.get_wake_turbulence_category.safe vc := trivial

theorem cpr_safe (m : Msg) (L : Long m) : T.cpr.safe m := by
  unfold T.cpr.safe
  have := L.len
  refine ⟨by omega, by omega, by omega, ?_, ?_⟩ <;> (split <;> first | omega | trivial)

theorem ground_track_safe (m : Msg) (L : Long m) : T.ground_track.safe m := by
  unfold T.ground_track.safe
  have hl := L.len
  refine ⟨by omega, by omega, by omega, ?_⟩
  frv_cases m L 45 46 52
  split
  · rename_i v heq
    split at heq
    · injection heq with heq; subst heq; simp only; omega
    · cases heq
  · trivial

theorem heading_safe (m : Msg) (L : Long m) : T.heading.safe m := by
  unfold T.heading.safe; have := L.len; omega


theorem sfrv (m : Msg) (L : Long m) (st flag sb eb : Nat) (hs : 1 ≤ st) (hs2 : st ≤ 112) (hf : 1 ≤ flag) (hf2 : flag ≤ 112)
    (h1 : 1 ≤ sb) (h2 : sb ≤ eb) (h3 : eb ≤ 112) :
    ∃ s f v, statusFlagAndRangeValue m st flag sb eb = some (s, f, v) ∧ s < 2 ∧ f < 2 ∧ v < 2 ^ (eb + 1 - sb) := by
  have hl := L.len
  refine ⟨field m st st, field m flag flag, field m sb eb,
    statusFlagAndRangeValue_eq m L.nib st flag sb eb hs (by omega) hf (by omega) h1 h2 (by omega), ?_, ?_, field_lt m sb eb⟩
  · have := field_lt m st st; have e : st + 1 - st = 1 := by omega
    rw [e] at this; exact this
  · have := field_lt m flag flag; have e : flag + 1 - flag = 1 := by omega
    rw [e] at this; exact this

theorem opt_filter_cases {α : Type} (p : α → Bool) (x : α) : Option.filter p (some x) = some x ∨ Option.filter p (some x) = none := by
  simp only [Option.filter]; split <;> simp

set_option hygiene false in
/-- rewrite a `(status, flag, field)` extraction in the goal and split on the filter that follows it -/
macro "sfrv_cases" m:term:max L:term:max st:num f:num s:num e:num : tactic =>
  `(tactic| (obtain ⟨s_, f_, v_, hv_, hs_, hf_, hb_⟩ := sfrv $m $L $st $f $s $e (by decide) (by decide) (by decide) (by decide) (by decide) (by decide) (by decide)
             simp only [Nat.reducePow, Nat.reduceAdd, Nat.reduceSub] at hb_
             rw [hv_]))

theorem i32_of_small (x : Nat) (h : x < 2147483648) : u32ToI32 x = (x : Int) ∧ (0 : Int) ≤ (x : Int) ∧ (x : Int) < 2147483648 :=
  ⟨u32ToI32_small x h, Int.natCast_nonneg _, by exact_mod_cast h⟩

theorem roll_angle_safe (sign value : Nat) (h : value < 512) : T.roll_angle.safe sign value := by
  unfold T.roll_angle.safe
  obtain ⟨e, h0, _⟩ := i32_of_small value (by omega)
  have h' : (value : Int) < 512 := by exact_mod_cast h
  rw [e]
  refine ⟨by omega, by decide, fun _ => ?_⟩
  have h1 : (0 : Int) ≤ Int.tdiv ((value : Int) * 45) 256 := Int.tdiv_nonneg (by omega) (by decide)
  have h2 : Int.tdiv ((value : Int) * 45) 256 ≤ (value : Int) * 45 := Int.tdiv_le_self _ (by omega)
  omega

theorem roll_angle_5_0_safe (m : Msg) (L : Long m) : T.roll_angle_5_0.safe m := by
  unfold T.roll_angle_5_0.safe
  have hl := L.len
  refine ⟨by omega, by omega, by omega, by omega, ?_⟩
  sfrv_cases m L 33 34 35 43
  rcases opt_filter_cases (fun f => f.1 == 1) (s_, f_, v_) with h | h <;> rw [h]
  · exact roll_angle_safe f_ v_ hb_
  · trivial

theorem track_angle_safe (sign value : Nat) (h : value < 1024) : T.track_angle.safe sign value := by
  unfold T.track_angle.safe
  refine ⟨by omega, fun _ => ?_⟩
  rw [Nat.shiftRight_eq_div_pow]; omega

theorem track_angle_5_0_safe (m : Msg) (L : Long m) : T.track_angle_5_0.safe m := by
  unfold T.track_angle_5_0.safe
  have hl := L.len
  refine ⟨by omega, by omega, by omega, by omega, ?_⟩
  sfrv_cases m L 44 45 46 55
  rcases opt_filter_cases (fun f => f.1 == 1) (s_, f_, v_) with h | h <;> rw [h]
  · exact track_angle_safe f_ v_ hb_
  · trivial

theorem track_angle_rate_safe (sign value : Nat) (h : value < 512) : T.track_angle_rate.safe sign value := by
  unfold T.track_angle_rate.safe
  refine ⟨by omega, ?_⟩
  simp only []
  intro _
  have hb : (value <<< 3) >>> 8 < 2147483648 := by
    rw [Nat.shiftLeft_eq, Nat.shiftRight_eq_div_pow]; omega
  obtain ⟨e, h0, _⟩ := i32_of_small _ hb
  rw [e]; omega

theorem track_angle_rate_5_0_safe (m : Msg) (L : Long m) : T.track_angle_rate_5_0.safe m := by
  unfold T.track_angle_rate_5_0.safe
  have hl := L.len
  refine ⟨by omega, by omega, by omega, by omega, ?_⟩
  sfrv_cases m L 67 68 69 77
  rcases opt_filter_cases (fun f => f.1 == 1) (s_, f_, v_) with h | h <;> rw [h]
  · exact track_angle_rate_safe f_ v_ hb_
  · trivial

theorem ground_speed_5_0_safe (m : Msg) (L : Long m) : T.ground_speed_5_0.safe m := by
  unfold T.ground_speed_5_0.safe; have := L.len
  refine ⟨by omega, by omega, by omega, ?_⟩
  obtain ⟨f_, v_, hv_, _, hb_⟩ := frv m L 56 57 66 (by decide) (by decide) (by decide) (by decide) (by decide)
  rw [hv_]
  rcases opt_filter_cases (fun f => f.1 == 1) (f_, v_) with h | h <;> rw [h]
  · have hv : v_ < 1024 := by simpa using hb_
    show v_ * 2 ^ _ < 2 ^ 32
    omega
  · trivial
theorem true_airspeed_5_0_safe (m : Msg) (L : Long m) : T.true_airspeed_5_0.safe m := by
  unfold T.true_airspeed_5_0.safe; have := L.len
  refine ⟨by omega, by omega, by omega, ?_⟩
  obtain ⟨f_, v_, hv_, _, hb_⟩ := frv m L 78 79 88 (by decide) (by decide) (by decide) (by decide) (by decide)
  rw [hv_]
  rcases opt_filter_cases (fun f => f.1 == 1) (f_, v_) with h | h <;> rw [h]
  · have hv : v_ < 1024 := by simpa using hb_
    show v_ * 2 ^ _ < 2 ^ 32
    omega
  · trivial

theorem magnetic_heading_safe (sign value : Nat) (h : value < 1024) : T.magnetic_heading.safe sign value := by
  unfold T.magnetic_heading.safe
  refine ⟨by omega, fun _ => ?_⟩
  rw [Nat.shiftRight_eq_div_pow]; omega

theorem magnetic_heading_6_0_safe (m : Msg) (L : Long m) : T.magnetic_heading_6_0.safe m := by
  unfold T.magnetic_heading_6_0.safe
  have hl := L.len
  refine ⟨by omega, by omega, by omega, by omega, ?_⟩
  sfrv_cases m L 33 34 35 44
  rcases opt_filter_cases (fun f => f.1 == 1) (s_, f_, v_) with h | h <;> rw [h]
  · exact magnetic_heading_safe f_ v_ hb_
  · trivial

theorem indicated_airspeed_6_0_safe (m : Msg) (L : Long m) : T.indicated_airspeed_6_0.safe m := by
  unfold T.indicated_airspeed_6_0.safe; have := L.len; omega
theorem mach_number_6_0_safe (m : Msg) (L : Long m) : T.mach_number_6_0.safe m := by
  unfold T.mach_number_6_0.safe; have := L.len; omega

theorem barometric_altitude_rate_safe (sign value : Nat) (h : value < 512) : T.barometric_altitude_rate.safe sign value := by
  unfold T.barometric_altitude_rate.safe
  obtain ⟨e, h0, _⟩ := i32_of_small value (by omega)
  have h' : (value : Int) < 512 := by exact_mod_cast h
  rw [e]
  have e5 : (2 : Int) ^ 5 = 32 := by decide
  simp only [e5]
  refine ⟨by omega, fun _ => by omega⟩

theorem barometric_altitude_rate_6_0_safe (m : Msg) (L : Long m) : T.barometric_altitude_rate_6_0.safe m := by
  unfold T.barometric_altitude_rate_6_0.safe
  have hl := L.len
  refine ⟨by omega, by omega, by omega, by omega, ?_⟩
  sfrv_cases m L 67 68 69 77
  rcases opt_filter_cases (fun f => (f.1 == 1) && (f.2.2 != 0)) (s_, f_, v_) with h | h <;> rw [h]
  · exact barometric_altitude_rate_safe f_ v_ hb_
  · trivial

theorem internal_vertical_velocity_safe (sign value : Nat) (h : value < 512) : T.internal_vertical_velocity.safe sign value := by
  unfold T.internal_vertical_velocity.safe
  refine ⟨by omega, ?_⟩
  simp only []
  intro _
  have hb : value <<< 5 < 2147483648 := by rw [Nat.shiftLeft_eq]; omega
  obtain ⟨e, h0, _⟩ := i32_of_small _ hb
  rw [e]
  have : ((value <<< 5 : Nat) : Int) < 16384 := by
    have : value <<< 5 < 16384 := by rw [Nat.shiftLeft_eq]; omega
    exact_mod_cast this
  omega

theorem internal_vertical_velocity_6_0_safe (m : Msg) (L : Long m) : T.internal_vertical_velocity_6_0.safe m := by
  unfold T.internal_vertical_velocity_6_0.safe
  have hl := L.len
  refine ⟨by omega, by omega, by omega, by omega, ?_⟩
  sfrv_cases m L 78 79 80 88
  rcases opt_filter_cases (fun f => (f.1 == 1) && (f.2.2 != 0)) (s_, f_, v_) with h | h <;> rw [h]
  · exact internal_vertical_velocity_safe f_ v_ hb_
  · trivial


theorem mcp_selected_altitude_safe (m : Msg) (L : Long m) : T.mcp_selected_altitude.safe m := by
  unfold T.mcp_selected_altitude.safe; have := L.len
  refine ⟨by omega, by omega, by omega, ?_⟩
  obtain ⟨f_, v_, hv_, _, hb_⟩ := frv m L 33 34 45 (by decide) (by decide) (by decide) (by decide) (by decide)
  rw [hv_]
  rcases opt_filter_cases (fun f => f.1 == 1) (f_, v_) with h | h <;> rw [h]
  · have hv : v_ < 4096 := by simpa using hb_
    show v_ * 2 ^ _ < 2 ^ 32
    omega
  · trivial
theorem fms_selected_altitude_safe (m : Msg) (L : Long m) : T.fms_selected_altitude.safe m := by
  unfold T.fms_selected_altitude.safe; have := L.len
  refine ⟨by omega, by omega, by omega, ?_⟩
  obtain ⟨f_, v_, hv_, _, hb_⟩ := frv m L 46 47 58 (by decide) (by decide) (by decide) (by decide) (by decide)
  rw [hv_]
  rcases opt_filter_cases (fun f => f.1 == 1) (f_, v_) with h | h <;> rw [h]
  · have hv : v_ < 4096 := by simpa using hb_
    show v_ * 2 ^ _ < 2 ^ 32
    omega
  · trivial
theorem target_altitude_source_safe (m : Msg) (L : Long m) : T.target_altitude_source.safe m := by
  unfold T.target_altitude_source.safe; have := L.len; omega

theorem barometric_pressure_setting_safe (m : Msg) (L : Long m) : T.barometric_pressure_setting.safe m := by
  unfold T.barometric_pressure_setting.safe
  have hl := L.len
  refine ⟨by omega, by omega, by omega, ?_, ?_, ?_⟩ <;> (frv_cases m L 59 60 71; intro _; omega)

theorem temp_4_4_safe (sign value : Nat) (h : value < 1024) : T.temp_4_4.safe sign value := by
  unfold T.temp_4_4.safe
  simp only []
  intro _
  obtain ⟨e, h0, h1⟩ := i32_of_small value (by omega)
  rw [e]; omega

theorem temperature_4_4_safe (m : Msg) (L : Long m) : T.temperature_4_4.safe m := by
  unfold T.temperature_4_4.safe
  have hl := L.len
  refine ⟨by omega, by omega, by omega, ?_⟩
  frv_cases m L 56 57 66
  exact temp_4_4_safe f_ v_ hb_

theorem wind_speed_safe (m : Msg) (L : Long m) : T.wind_speed.safe m := by
  unfold T.wind_speed.safe; have := L.len; omega

theorem wind_direction_safe (m : Msg) (L : Long m) : T.wind_direction.safe m := by
  unfold T.wind_direction.safe
  have hl := L.len
  refine ⟨by omega, by omega, by omega, ?_⟩
  obtain ⟨f_, v_, hv_, hf_, hb_⟩ := frv m L 37 47 55 (by decide) (by decide) (by decide) (by decide) (by decide)
  simp only [Nat.reducePow, Nat.reduceAdd, Nat.reduceSub] at hb_
  rw [hv_]
  rcases opt_filter_cases (fun (x : Nat × Nat) => match x with | (status, _) => status == 1) (f_, v_) with h | h <;> rw [h]
  · show v_ * 180 < 2 ^ 32; omega
  · trivial

theorem wind_4_4_safe (m : Msg) (L : Long m) : T.wind_4_4.safe m := by
  unfold T.wind_4_4.safe
  refine ⟨wind_speed_safe m L, ?_⟩
  split
  · exact wind_direction_safe m L
  · trivial

theorem turbulence_4_4_safe (m : Msg) (L : Long m) : T.turbulence_4_4.safe m := by
  unfold T.turbulence_4_4.safe; have := L.len; omega

theorem humidity_4_4_safe (m : Msg) (L : Long m) : T.humidity_4_4.safe m := by
  unfold T.humidity_4_4.safe
  have hl := L.len
  refine ⟨by omega, by omega, by omega, ?_⟩
  obtain ⟨f_, v_, hv_, hf_, hb_⟩ := frv m L 82 83 88 (by decide) (by decide) (by decide) (by decide) (by decide)
  simp only [Nat.reducePow, Nat.reduceAdd, Nat.reduceSub] at hb_
  rw [hv_]
  rcases opt_filter_cases (fun (x : Nat × Nat) => match x with | (status, _) => status == 1) (f_, v_) with h | h <;> rw [h]
  · show v_ * 100 < 2 ^ 32; omega
  · trivial

theorem pressure_4_4_safe (m : Msg) (L : Long m) : T.pressure_4_4.safe m := by
  unfold T.pressure_4_4.safe; have := L.len; omega

theorem temperature_4_5_safe (m : Msg) (L : Long m) : T.temperature_4_5.safe m := by
  unfold T.temperature_4_5.safe
  have hl := L.len
  refine ⟨by omega, by omega, by omega, by omega, ?_⟩
  split <;> trivial

theorem bds_safe (m : Msg) (L : Long m) : T.bds.safe m := by
  unfold T.bds.safe
  have hl := L.len
  refine ⟨by omega, by omega, fun _ => by omega, fun _ _ => by omega, fun _ => by omega, fun _ => by omega, fun _ => ?_⟩
  split <;> first | omega | trivial

theorem goodflags_safe (m : Msg) (L : Long m) (f s e : Nat) (h1 : 1 ≤ f) (h2 : f ≤ 112) (h3 : 1 ≤ s) (h4 : s ≤ 112) (h5 : 1 ≤ e) (h6 : e ≤ 112) :
    T.goodflags.safe m f s e := by
  unfold T.goodflags.safe; have := L.len; omega


/-- discharge a goal that is the safety of one decoder call on a 112-bit frame (or trivial, or a bound on the length) -/
macro "msg_safe" L:term:max : tactic =>
  `(tactic| first
    | trivial
    | (have hl__ := ($L).len; omega)
    | exact goodflags_safe _ $L _ _ _ (by decide) (by decide) (by decide) (by decide) (by decide) (by decide)
    | exact mcp_selected_altitude_safe _ $L | exact fms_selected_altitude_safe _ $L | exact barometric_pressure_setting_safe _ $L
    | exact target_altitude_source_safe _ $L | exact roll_angle_5_0_safe _ $L | exact track_angle_5_0_safe _ $L
    | exact track_angle_rate_5_0_safe _ $L | exact ground_speed_5_0_safe _ $L | exact true_airspeed_5_0_safe _ $L
    | exact magnetic_heading_6_0_safe _ $L | exact indicated_airspeed_6_0_safe _ $L | exact mach_number_6_0_safe _ $L
    | exact barometric_altitude_rate_6_0_safe _ $L | exact internal_vertical_velocity_6_0_safe _ $L
    | exact temperature_4_4_safe _ $L | exact wind_4_4_safe _ $L | exact humidity_4_4_safe _ $L | exact turbulence_4_4_safe _ $L
    | exact pressure_4_4_safe _ $L | exact temperature_4_5_safe _ $L | exact bds_safe _ $L | exact ais_safe _ $L
    | exact threat_encounter_safe _ $L | exact cpr_safe _ $L | exact vertical_rate_safe _ $L | exact altitude_delta_safe _ $L
    | exact altitude_gnss_safe _ $L | exact version_safe _ $L | exact surveillance_status_safe _ $L | exact ground_movement_safe _ $L
    | exact ground_track_safe _ $L | exact heading_safe _ $L | exact me_code_safe _ $L)

theorem is_bds_1_7_safe (m : Msg) (L : Long m) : T.is_bds_1_7.safe m := by
  unfold T.is_bds_1_7.safe
  have hl := L.len
  refine ⟨by omega, by omega, by omega, ?_, ?_, ?_⟩ <;> (split <;> first | trivial | (intro _; first | omega | (split <;> trivial)))

theorem is_bds_4_0_safe (m : Msg) (L : Long m) : T.is_bds_4_0.safe m := by
  unfold T.is_bds_4_0.safe
  refine ⟨?_, ?_, ?_, ?_, ?_, ?_, ?_, ?_, ?_, ?_⟩ <;> (intros; msg_safe L)

theorem is_bds_5_0_safe (m : Msg) (L : Long m) : T.is_bds_5_0.safe m := by
  unfold T.is_bds_5_0.safe
  refine ⟨?_, ?_, ?_, ?_, ?_, ?_, ?_, ?_, ?_, ?_, ?_⟩ <;> (intros; msg_safe L)

theorem is_bds_6_0_safe (m : Msg) (L : Long m) : T.is_bds_6_0.safe m := by
  unfold T.is_bds_6_0.safe
  refine ⟨?_, ?_, ?_, ?_, ?_, ?_, ?_, ?_, ?_, ?_, ?_⟩ <;> (intros; msg_safe L)

theorem is_bds_4_4_safe (m : Msg) (L : Long m) : T.is_bds_4_4.safe m := by
  unfold T.is_bds_4_4.safe
  have hl := L.len
  refine ⟨by omega, by omega, ?_, ?_, ?_, ?_, ?_, ?_, ?_, ?_, ?_, ?_, ?_⟩ <;> (split <;> first | trivial | (intros; msg_safe L))

theorem is_bds_4_5_safe (m : Msg) (L : Long m) : T.is_bds_4_5.safe m := by
  unfold T.is_bds_4_5.safe
  refine ⟨?_, ?_, ?_, ?_, ?_, ?_, ?_, ?_, ?_, ?_⟩ <;> (intros; msg_safe L)


/-! ### the records `DF::from_message` builds -/

theorem get_capability_safe (m : Msg) (h : 2 ≤ m.length) : T.get_capability.safe m := by
  unfold T.get_capability.safe; omega
theorem get_message_type_safe (m : Msg) (L : Long m) : T.get_message_type.safe m := by
  unfold T.get_message_type.safe; have := L.len; have := nib_lt m L.nib 8; omega

theorem srt_update_safe (self : T.Srt) (m : Msg) (h : 2 ≤ m.length) : T.Srt.update.safe self m := by
  unfold T.Srt.update.safe
  refine ⟨?_, ?_, ?_⟩ <;> (split <;> first | trivial | skip)
  · intros; exact altitude_safe m _ (fun h17 => by omega)
  · intros; exact squawk_safe m
  · intros; exact get_capability_safe m h

theorem srt_from_message_safe (m : Msg) (h : 2 ≤ m.length) : T.Srt.from_message.safe m :=
  ⟨trivial, srt_update_safe _ m h⟩

theorem ext_update_mt_5_18_safe (self : T.Ext) (m : Msg) (L : Long m) (df : Nat) : T.Ext.update_mt_5_18.safe self m df := by
  unfold T.Ext.update_mt_5_18.safe
  refine ⟨cpr_safe m L, fun _ => ground_movement_safe m L, fun _ => ground_track_safe m L, fun _ => altitude_safe m df (fun _ => L),
    fun _ => surveillance_status_safe m L⟩

theorem ext_update_mt_19_safe (te : TEnv) (self : T.Ext) (m : Msg) (L : Long m) : T.Ext.update_mt_19.safe te self m := by
  unfold T.Ext.update_mt_19.safe
  exact ⟨vertical_rate_safe m L, altitude_delta_safe m L, fun _ => heading_safe m L⟩

theorem ext_update_mt_20_22_safe (self : T.Ext) (m : Msg) (L : Long m) : T.Ext.update_mt_20_22.safe self m := by
  unfold T.Ext.update_mt_20_22.safe
  exact ⟨altitude_gnss_safe m L, surveillance_status_safe m L⟩

theorem ext_update_mt_31_safe (self : T.Ext) (m : Msg) (L : Long m) : T.Ext.update_mt_31.safe self m := version_safe m L

theorem ext_update_safe (te : TEnv) (self : T.Ext) (m : Msg) (L : Long m) : T.Ext.update.safe te self m := by
  unfold T.Ext.update.safe
  have hl := L.len
  refine ⟨?_, ?_, ?_, ?_, ?_, ?_, ?_⟩ <;> (split <;> first | trivial | skip)
  · intros; exact get_capability_safe m (by omega)
  · intros; exact get_message_type_safe m L
  · intros; trivial
  · intros; exact ext_update_mt_5_18_safe _ m L _
  · intros; exact ext_update_mt_19_safe te _ m L
  · intros; exact ext_update_mt_20_22_safe _ m L
  · intros; exact ext_update_mt_31_safe _ m L

theorem ext_from_message_safe (te : TEnv) (m : Msg) (L : Long m) : T.Ext.from_message.safe te m :=
  ⟨trivial, ext_update_safe te _ m L⟩

/-- peel the state-threading prefix (`let`s, matches on the threaded state, path conditions) off an obligation and
    discharge what is left - the safety of one call on the frame, which does not depend on the state -/
macro "peel" L:term:max : tactic =>
  `(tactic| (repeat' (first | intro _ | split)
             all_goals (first
               | msg_safe $L | exact is_bds_1_7_safe _ $L | exact is_bds_4_0_safe _ $L | exact is_bds_5_0_safe _ $L
               | exact is_bds_6_0_safe _ $L | exact is_bds_4_4_safe _ $L | exact is_bds_4_5_safe _ $L
               | exact altitude_safe _ _ (fun _ => $L) | exact squawk_safe _)))

theorem mds_update_safe (self : T.Mds) (m : Msg) (L : Long m) : T.Mds.update.safe self m := by
  unfold T.Mds.update.safe
  refine ⟨?_, ?_, ?_, ?_, ?_, ?_, ?_, ?_, ?_⟩ <;> peel L

theorem mds_from_message_safe (m : Msg) (L : Long m) : T.Mds.from_message.safe m :=
  ⟨trivial, mds_update_safe _ m L⟩

/-- what the gate hands on: nibbles, and the length the format needs -/
structure Accepted (m : Msg) : Prop where
  nib : AllNib m
  fits : ∃ df, getDownlinkFormat m = some df ∧ ((df ≤ 15 ∧ m.length = 14) ∨ (16 ≤ df ∧ m.length = 28))

theorem Accepted.long {m : Msg} (A : Accepted m) {df : Nat} (h : getDownlinkFormat m = some df) (h16 : 16 ≤ df) : Long m := by
  obtain ⟨d, hd, hf⟩ := A.fits
  rw [h] at hd; injection hd with hd; subst hd
  exact ⟨A.nib, by omega⟩

theorem Accepted.len2 {m : Msg} (A : Accepted m) : 14 ≤ m.length ∧ m.length ≤ 28 := by
  obtain ⟨d, _, hf⟩ := A.fits; omega

theorem df_from_message_safe (te : TEnv) (m : Msg) (A : Accepted m) : T.DF.from_message.safe te m := by
  unfold T.DF.from_message.safe
  have hl := A.len2
  refine ⟨?_, ?_, ?_, ?_⟩ <;> (split <;> first | trivial | skip)
  · intro _; exact srt_from_message_safe m (by omega)
  · rename_i v hv; intro h; exact ext_from_message_safe te m (A.long hv (by omega))
  · rename_i v hv; intro h; exact mds_from_message_safe m (A.long hv (by omega))
  · intro _; trivial


/-! ### rows: the -U path (`Plane::update`), for rows whose barometric altitude is one the decoder can produce -/

/-- the only row field that enters trapping arithmetic: `altitude as i32 + altitude_delta` -/
def AltOK (p : T.Plane) : Prop := ∀ a, p.altitude = some a → a < 100000

theorem altitude_lt (m : Msg) (df a : Nat) (h : T.altitude m df = some a) : a < 100000 := by
  unfold T.altitude at h
  simp only [Option.bind] at h
  split at h
  · cases h
  · simp only at h
    split at h
    · injection h with h; omega
    · cases h

theorem altitude_delta_bound (m : Msg) (L : Long m) (d : Int) (h : T.altitude_delta m = some d) : -3200 ≤ d ∧ d ≤ 3200 := by
  unfold T.altitude_delta at h
  obtain ⟨f_, v_, hv_, hf_, hb_⟩ := frv m L 81 82 88 (by decide) (by decide) (by decide) (by decide) (by decide)
  simp only [Nat.reducePow, Nat.reduceAdd, Nat.reduceSub] at hb_
  rw [hv_] at h
  rcases opt_filter_cases (fun f => f.2 != 0) (f_, v_) with hc | hc <;> rw [hc] at h
  · simp only [Option.map_some, Option.some.injEq] at h
    subst h
    unfold T.delta
    obtain ⟨e, h0, _⟩ := i32_of_small v_ (by omega)
    have h' : (v_ : Int) < 128 := by exact_mod_cast hb_
    rw [e]; split <;> omega
  · cases h

theorem gnss_add_ok (a : Nat) (d : Int) (ha : a < 100000) (hd : -3200 ≤ d ∧ d ≤ 3200) :
    -(2:Int)^31 ≤ (u32ToI32 a) + d ∧ (u32ToI32 a) + d < (2:Int)^31 := by
  obtain ⟨e, h0, _⟩ := i32_of_small a (by omega)
  have h' : (a : Int) < 100000 := by exact_mod_cast ha
  rw [e]; omega

theorem update_from_ext_19_safe (te : TEnv) (self : T.Plane) (m : Msg) (L : Long m) (st : Nat) (hA : AltOK self) :
    T.Plane.update_from_ext_19.safe te self m st := by
  unfold T.Plane.update_from_ext_19.safe
  refine ⟨vertical_rate_safe m L, ?_, ?_, ?_⟩
  · simp only []; split <;> first | exact altitude_delta_safe m L | trivial
  · simp only []
    split
    · rename_i a ha
      split
      · rename_i d hd
        exact gnss_add_ok a d (hA a ha) (altitude_delta_bound m L d hd)
      · trivial
    · trivial
  · peel L

theorem update_position_safe (te : TEnv) (self : T.Plane) (mt form : Nat) (hf : form ≤ 1) :
    T.Plane.update_position.safe te self mt form := by
  unfold T.Plane.update_position.safe
  exact ⟨fun _ _ => cpr_location_safe _ _ form 4 hf (Or.inr rfl), fun _ _ => cpr_location_safe _ _ form 1 hf (Or.inl rfl)⟩

theorem update_cpr_safe (te : TEnv) (self : T.Plane) (m : Msg) (L : Long m) (mt : Nat) : T.Plane.update_cpr.safe te self m mt := by
  unfold T.Plane.update_cpr.safe
  refine ⟨cpr_safe m L, ?_⟩
  split
  · rename_i f la lo heq
    rw [Option.filter_eq_some_iff] at heq
    have : f ≤ 1 := by simpa using heq.2
    refine ⟨?_, ?_, ?_, ?_, ?_⟩ <;> first | omega | exact update_position_safe te _ _ _ this | (intros; trivial) | trivial
  · trivial


theorem update_from_ext_5_8_safe (te : TEnv) (self : T.Plane) (m : Msg) (L : Long m) (mt : Nat) : T.Plane.update_from_ext_5_8.safe te self m mt := by
  unfold T.Plane.update_from_ext_5_8.safe
  exact ⟨ground_movement_safe m L, ground_track_safe m L, update_cpr_safe te _ m L mt⟩

theorem update_from_ext_9_18_safe (te : TEnv) (self : T.Plane) (m : Msg) (L : Long m) (mt df : Nat) : T.Plane.update_from_ext_9_18.safe te self m mt df := by
  unfold T.Plane.update_from_ext_9_18.safe
  exact ⟨altitude_safe m df (fun _ => L), surveillance_status_safe m L, update_cpr_safe te _ m L mt⟩

theorem update_from_ext_safe (te : TEnv) (self : T.Plane) (m : Msg) (L : Long m) (df : Nat) (hA : AltOK self) :
    T.Plane.update_from_ext.safe te self m df := by
  unfold T.Plane.update_from_ext.safe
  refine ⟨get_message_type_safe m L, ?_, ?_, ?_, ?_, ?_, ?_⟩ <;> (split; intros)
  · trivial
  · exact update_from_ext_5_8_safe te _ m L _
  · exact update_from_ext_9_18_safe te _ m L _ df
  · exact update_from_ext_19_safe te _ m L _ (fun a h => hA a h)
  · exact ⟨altitude_gnss_safe m L, surveillance_status_safe m L⟩
  · exact version_safe m L

theorem update_from_bcast_safe (self : T.Plane) (m : Msg) (df : Nat) (h2 : 2 ≤ m.length) (hL : df = 17 → Long m) :
    T.Plane.update_from_bcast.safe self m df := by
  unfold T.Plane.update_from_bcast.safe
  refine ⟨fun _ => altitude_safe m df hL, ?_, ?_⟩
  · intros; exact squawk_safe m
  · intros; exact get_capability_safe m h2

/-- `update_from_bcast` leaves a decoder-made altitude in the row -/
theorem update_from_bcast_altOK (self : T.Plane) (m : Msg) (df : Nat) (hA : AltOK self) : AltOK (T.Plane.update_from_bcast self m df) := by
  unfold T.Plane.update_from_bcast AltOK
  simp only []
  intro a
  repeat' split
  all_goals (intro h; first | exact hA a h | exact altitude_lt m df a h | (simp at h))

theorem update_from_mode_s_safe (self : T.Plane) (m : Msg) (L : Long m) (df : Nat) (r : Bool) : T.Plane.update_from_mode_s.safe self m df r := by
  unfold T.Plane.update_from_mode_s.safe
  refine ⟨bds_safe m L, ?_, ?_, ?_, ?_, ?_, ?_, ?_⟩ <;> peel L


theorem update_safe (now : Int) (te : TEnv) (self : T.Plane) (m : Msg) (df : Nat) (r : Bool) (hA : AltOK self) (h2 : 2 ≤ m.length)
    (hL : (df = 17 ∨ df = 18 ∨ df = 20 ∨ df = 21) → Long m) : T.Plane.update.safe now te self m df r := by
  unfold T.Plane.update.safe
  refine ⟨update_from_bcast_safe _ m df h2 (fun h => hL (by omega)), ?_, ?_⟩
  · simp only []
    intro h
    exact update_from_ext_safe te _ m (hL (by omega)) df (update_from_bcast_altOK _ m df (fun a ha => hA a ha))
  · simp only []
    intro h
    exact update_from_mode_s_safe _ m (hL (by omega)) df r

theorem new_altOK (now : Int) : AltOK (T.Plane.new now) := by
  intro a h; simp [T.Plane.new] at h


/-! ### rows: the default path (records built by `DF::from_message`, applied by `update_from_downlink`) -/

/-- what the default path reads from an extended-squitter record and feeds into trapping operations -/
def ExtOK (d : T.Ext) : Prop :=
  (∀ f la lo, d.cpr = some (f, la, lo) → f < 2) ∧ (∀ a, d.altitude = some a → a < 100000) ∧
  (∀ x, d.altitude_delta = some x → -3200 ≤ x ∧ x ≤ 3200)

theorem cpr_flag_lt (m : Msg) (L : Long m) (f la lo : Nat) (h : T.cpr m = some (f, la, lo)) : f < 2 := by
  unfold T.cpr at h
  obtain ⟨f_, v_, hv_, hf_, hb_⟩ := frv m L 54 55 71 (by decide) (by decide) (by decide) (by decide) (by decide)
  rw [hv_] at h
  simp only [Option.map_eq_some_iff] at h
  obtain ⟨lon, _, he⟩ := h
  injection he with e1; subst e1; exact hf_

theorem ext_new_ok : ExtOK T.Ext.new := by
  refine ⟨?_, ?_, ?_⟩ <;> (intros; simp [T.Ext.new] at *)

theorem ext_update_ok (te : TEnv) (m : Msg) (L : Long m) : ExtOK (T.Ext.update te T.Ext.new m) := by
  have hc := cpr_flag_lt m L
  have ha := fun df => altitude_lt m df
  have hd := altitude_delta_bound m L
  unfold T.Ext.update T.Ext.update_mt_1_4 T.Ext.update_mt_5_18 T.Ext.update_mt_19 T.Ext.update_mt_20_22 T.Ext.update_mt_31
  simp only []
  repeat' split
  all_goals (refine ⟨?_, ?_, ?_⟩ <;> (intros; first | (apply hc; assumption) | (apply ha; assumption) | (apply hd; assumption) | (simp [T.Ext.new] at *)))

theorem ext_from_message_ok (te : TEnv) (m : Msg) (L : Long m) (d : T.Ext) (h : T.Ext.from_message te m = some d) : ExtOK d := by
  unfold T.Ext.from_message at h
  injection h with h; subst h
  exact ext_update_ok te m L


theorem amend_from_ext_19_safe (self : T.Plane) (d : T.Ext) (hA : AltOK self) (hE : ExtOK d) : T.Plane.amend_from_ext_19.safe self d := by
  unfold T.Plane.amend_from_ext_19.safe
  simp only []
  split
  · rename_i x hx
    split
    · rename_i a ha
      exact gnss_add_ok a x (hA a ha) (hE.2.2 x hx)
    · trivial
  · trivial

theorem amend_cpr_safe (te : TEnv) (self : T.Plane) (d : T.Ext) (hE : ExtOK d) : T.Plane.amend_cpr.safe te self d := by
  unfold T.Plane.amend_cpr.safe
  refine ⟨?_, ?_, ?_, ?_, ?_⟩ <;> (split <;> first | trivial | skip)
  all_goals (rename_i f la lo hq; intros; first | exact hE.1 f la lo hq | exact update_position_safe te _ _ _ (Nat.le_of_lt_succ (hE.1 f la lo hq)) | trivial)

theorem amend_from_ext_5_8_safe (te : TEnv) (self : T.Plane) (d : T.Ext) (hE : ExtOK d) : T.Plane.amend_from_ext_5_8.safe te self d :=
  amend_cpr_safe te _ d hE

theorem amend_from_ext_9_18_safe (te : TEnv) (self : T.Plane) (d : T.Ext) (hE : ExtOK d) : T.Plane.amend_from_ext_9_18.safe te self d :=
  amend_cpr_safe te _ d hE

theorem update_from_downlink_Ext_safe (te : TEnv) (self : T.Plane) (d : T.Ext) (hA : AltOK self) (hE : ExtOK d) :
    T.Plane.update_from_downlink_Ext.safe te self d := by
  unfold T.Plane.update_from_downlink_Ext.safe
  refine ⟨?_, ?_, ?_, ?_, ?_, ?_⟩ <;>
    (intros; first
      | trivial
      | exact amend_from_ext_5_8_safe te _ d hE
      | exact amend_from_ext_9_18_safe te _ d hE
      | exact amend_from_ext_19_safe _ d (fun a h => hA a h) hE)

/-- a record as `DF::from_message` builds it -/
def DfOK : T.DF → Prop
  | .EXT v => ExtOK v
  | _ => True

theorem update_from_downlink_DF_safe (now : Int) (te : TEnv) (self : T.Plane) (d : T.DF) (hA : AltOK self) (hD : DfOK d) :
    T.Plane.update_from_downlink_DF.safe now te self d := by
  unfold T.Plane.update_from_downlink_DF.safe
  refine ⟨?_, ?_, ?_⟩ <;> (simp only []; split <;> first | trivial | skip)
  rename_i v
  exact update_from_downlink_Ext_safe te _ v (fun a h => hA a h) hD


/-! ### the table and the loop body -/

theorem from_downlink_safe (now : Int) (te : TEnv) (d : T.DF) (icao : Nat) (hD : DfOK d) : T.Plane.from_downlink.safe now te d icao := by
  unfold T.Plane.from_downlink.safe
  refine ⟨trivial, ?_⟩
  simp only []
  exact update_from_downlink_DF_safe now te _ d (fun a h => by simp [T.Plane.new] at h) hD

theorem from_message_safe (now : Int) (te : TEnv) (m : Msg) (df icao : Nat) (r : Bool) (h2 : 2 ≤ m.length)
    (hL : (df = 17 ∨ df = 18 ∨ df = 20 ∨ df = 21) → Long m) : T.Plane.from_message.safe now te m df icao r := by
  unfold T.Plane.from_message.safe
  refine ⟨trivial, ?_⟩
  simp only []
  exact update_safe now te _ m df r (fun a h => by simp [T.Plane.new] at h) h2 hL

/-- every row of the table has an altitude the decoder can have produced -/
def TableOK (t : T.Planes) : Prop := ∀ kv ∈ t.aircrafts, AltOK kv.2

theorem update_aircraft_safe (now : Int) (te : TEnv) (t : T.Planes) (d : T.DF) (m : Msg) (df icao : Nat) (a : T.Args)
    (hT : TableOK t) (hD : DfOK d) (h2 : 2 ≤ m.length) (hL : (df = 17 ∨ df = 18 ∨ df = 20 ∨ df = 21) → Long m) :
    T.Planes.update_aircraft.safe now te t d m df icao a := by
  unfold T.Planes.update_aircraft.safe
  refine ⟨?_, ?_, from_downlink_safe now te d icao hD⟩
  · intro _ kv hkv _ _
    exact update_from_downlink_DF_safe now te _ d (hT kv hkv) hD
  · intro _ kv hkv _ _
    exact update_safe now te _ m df a.relaxed (hT kv hkv) h2 hL

/-- the counters: no DF has been counted 2^31 - 1 times yet, and the sweep counter is where the sweep leaves it -/
def CountOK (c : T.AppCounters) : Prop :=
  (∀ kc ∈ c.df_count, -(2:Int)^31 ≤ kc.2 + 1 ∧ kc.2 + 1 < (2:Int)^31) ∧ c.cleanup_count ≤ 11

theorem update_count_safe (c : T.AppCounters) (df : Nat) (h : CountOK c) : T.AppCounters.update_count.safe c df := by
  unfold T.AppCounters.update_count.safe
  intro kc hkc; exact h.1 kc hkc

theorem cleanup_safe (t : T.Planes) (c : T.AppCounters) (now da : Int) (h : c.cleanup_count ≤ 11) : T.Planes.cleanup.safe t c now da := by
  unfold T.Planes.cleanup.safe
  refine ⟨fun _ => trivial, ?_⟩
  simp only []
  split
  · rename_i hc
    unfold T.AppCounters.increment_cleanup_count.safe T.AppCounters.reset_cleanup_count
    simp only []; omega
  · unfold T.AppCounters.increment_cleanup_count.safe
    simp only []; omega


theorem charDigits_allNib (cs : List Char) : AllNib (cs.filterMap charToDigit16) := by
  intro x hx
  simp only [List.mem_filterMap] at hx
  obtain ⟨c, _, hc⟩ := hx
  unfold charToDigit16 at hc
  simp only [] at hc
  repeat' split at hc
  all_goals first | (injection hc with hc; omega) | cases hc

/-- what `get_message` lets through is an accepted frame -/
theorem get_message_accepted (cs : List Char) (m : Msg) (h : T.get_message cs = some m) : Accepted m := by
  rw [get_message_eq] at h
  unfold messageOfDigits at h
  rw [Option.filter_eq_some_iff] at h
  obtain ⟨h, _⟩ := h
  rw [Option.filter_eq_some_iff] at h
  obtain ⟨h, _⟩ := h
  rw [Option.filter_eq_some_iff] at h
  obtain ⟨h, hfit⟩ := h
  rw [Option.filter_eq_some_iff] at h
  obtain ⟨hc, hlen⟩ := h
  refine ⟨cleanDigits_allNib (charDigits_allNib cs) hc, ?_⟩
  unfold lengthMatchesDF at hfit
  cases hdf : getDownlinkFormat m with
  | none => rw [hdf] at hfit; cases hfit
  | some df =>
    rw [hdf] at hfit
    refine ⟨df, rfl, ?_⟩
    by_cases h15 : df ≤ 15
    · left; exact ⟨h15, by simpa [h15] using hfit⟩
    · right; exact ⟨by omega, by simpa [h15] using hfit⟩

theorem df_from_message_ok (te : TEnv) (m : Msg) (A : Accepted m) (d : T.DF) (h : T.DF.from_message te m = some d) : DfOK d := by
  unfold T.DF.from_message at h
  cases hdf : getDownlinkFormat m with
  | none => rw [hdf] at h; cases h
  | some v =>
    rw [hdf] at h
    simp only [] at h
    by_cases h16 : 0 ≤ v ∧ v ≤ 16
    · simp only [h16, and_self, if_true] at h
      cases hs : T.Srt.from_message m <;> rw [hs] at h <;> simp at h
      subst h; trivial
    · by_cases h17 : v = 17
      · simp only [h16, if_false, h17, if_true] at h
        have L : Long m := A.long hdf (by omega)
        cases he : T.Ext.from_message te m with
        | none => rw [he] at h; simp at h
        | some x =>
          rw [he] at h; simp at h
          subst h
          exact ext_from_message_ok te m L x he
      · simp only [h16, if_false, h17] at h
        split at h
        · cases h
        · rename_i dl heq
          injection h with h; subst h
          split at heq
          · split at heq
            · cases heq
            · injection heq with heq; subst heq; trivial
          · injection heq with heq; subst heq; trivial


theorem update_count_cleanup (c : T.AppCounters) (df : Nat) : (T.AppCounters.update_count c df).cleanup_count = c.cleanup_count := rfl

/-- **One iteration of the reader loop cannot trap** - for every line (any characters), every option set, every table whose
    rows carry decoder-made altitudes and counters that have not been incremented 2^31 - 1 times: no unsigned subtraction
    underflows, no `+`/`*` overflows its integer type, no shift is over-wide, no index is out of range, no `expect` meets
    `None`, in any function the loop body calls (133 translated functions, 430 obligations regenerated from the source). -/
theorem read_lines_step_safe (now : Int) (te : TEnv) (line : List Char) (a : T.Args) (t : T.Planes) (c : T.AppCounters)
    (hT : TableOK t) (hC : CountOK c) : T.read_lines_step.safe now te line a t c := by
  unfold T.read_lines_step.safe
  refine ⟨get_message_safe line, ?_, ?_, ?_, ?_⟩
  all_goals (split <;> first | trivial | skip)
  all_goals (rename_i m hm; split <;> first | trivial | skip)
  all_goals (rename_i df hdf; split <;> first | trivial | skip)
  all_goals (have A := get_message_accepted line m hm; have hl := A.len2)
  · intro _; exact update_count_safe c df hC
  · intros; exact df_from_message_safe te m A
  · intros
    split
    · rename_i d hd
      exact update_aircraft_safe now te t d m df _ a hT (df_from_message_ok te m A d hd) (by omega) (fun h => A.long hdf (by omega))
    · trivial
  · simp only []
    split
    · apply cleanup_safe
      split
      · rw [update_count_cleanup]; exact hC.2
      · exact hC.2
    · trivial



/-! ### propositions that are `True` (functions without a trapping operation), and two small compositions -/

theorem temp_4_5_safe' (sign : Nat) (value : Nat) : T.temp_4_5.safe sign value := trivial
theorem Capability_new_safe'  : T.Capability.new.safe  := trivial
theorem Capability_from_data_safe' (flags : Nat) (bds20 : Bool) (bds40 : Bool) (bds44 : Bool) (bds50 : Bool) (bds60 : Bool) : T.Capability.from_data.safe flags bds20 bds40 bds44 bds50 bds60 := trivial
theorem SelectedVerticalIntention_new_safe'  : T.SelectedVerticalIntention.new.safe  := trivial
theorem SelectedVerticalIntention_from_data_safe' (mcp_selected_altitude : Option Nat) (fms_selected_altitude : Option Nat) (barometric_pressure_setting : Option Nat) (target_altitude_source : Option Nat) : T.SelectedVerticalIntention.from_data.safe mcp_selected_altitude fms_selected_altitude barometric_pressure_setting target_altitude_source := trivial
theorem TrackAndTurn_new_safe'  : T.TrackAndTurn.new.safe  := trivial
theorem TrackAndTurn_from_data_safe' (roll_angle : Option Int) (track_angle : Option Nat) (track_angle_rate : Option Int) (ground_speed : Option Nat) (true_airspeed : Option Nat) : T.TrackAndTurn.from_data.safe roll_angle track_angle track_angle_rate ground_speed true_airspeed := trivial
theorem HeadingAndSpeed_new_safe'  : T.HeadingAndSpeed.new.safe  := trivial
theorem HeadingAndSpeed_from_data_safe' (magnetic_heading : Option Nat) (indicated_airspeed : Option Nat) (mach_number : Option Rat) (barometric_altitude_rate : Option Int) (internal_vertical_velocity : Option Int) : T.HeadingAndSpeed.from_data.safe magnetic_heading indicated_airspeed mach_number barometric_altitude_rate internal_vertical_velocity := trivial
theorem Meteo_new_safe'  : T.Meteo.new.safe  := trivial
theorem Meteo_from_data_safe' (temp : Option Rat) (wind : Option (Nat × Nat)) (humidity : Option Nat) (turbulence : Option Nat) (pressure : Option Nat) : T.Meteo.from_data.safe temp wind humidity turbulence pressure := trivial
theorem Srt_new_safe'  : T.Srt.new.safe  := trivial
theorem Ext_new_safe'  : T.Ext.new.safe  := trivial
theorem Ext_update_mt_1_4_safe' (self : T.Ext) (message : Msg) : T.Ext.update_mt_1_4.safe self message := trivial
theorem Mds_new_safe'  : T.Mds.new.safe  := trivial
theorem Plane_amend_from_ext_1_4_safe' (self : T.Plane) (dl : T.Ext) : T.Plane.amend_from_ext_1_4.safe self dl := trivial
theorem Plane_amend_from_ext_20_22_safe' (self : T.Plane) (dl : T.Ext) : T.Plane.amend_from_ext_20_22.safe self dl := trivial
theorem Plane_amend_from_ext_31_safe' (self : T.Plane) (dl : T.Ext) : T.Plane.amend_from_ext_31.safe self dl := trivial
theorem Plane_update_from_downlink_Mds_safe' (self : T.Plane) (dl : T.Mds) : T.Plane.update_from_downlink_Mds.safe self dl := trivial
theorem Plane_update_from_downlink_Srt_safe' (self : T.Plane) (dl : T.Srt) : T.Plane.update_from_downlink_Srt.safe self dl := trivial
theorem Plane_update_from_ext_1_4_safe' (self : T.Plane) (message : Msg) (message_type : Nat) (message_subtype : Nat) : T.Plane.update_from_ext_1_4.safe self message message_type message_subtype := trivial
theorem AppCounters_reset_cleanup_count_safe' (self : T.AppCounters) : T.AppCounters.reset_cleanup_count.safe self := trivial
theorem AppCounters_reset_timestamp_safe' (self : T.AppCounters) (now : Int) : T.AppCounters.reset_timestamp.safe self now := trivial
theorem AppCounters_is_time_to_refresh_safe' (self : T.AppCounters) (now : Int) (update : Int) : T.AppCounters.is_time_to_refresh.safe self now update := trivial
theorem update_from_ext_20_22_safe (self : T.Plane) (m : Msg) (L : Long m) : T.Plane.update_from_ext_20_22.safe self m :=
  ⟨altitude_gnss_safe m L, surveillance_status_safe m L⟩
theorem update_from_ext_31_safe (self : T.Plane) (m : Msg) (L : Long m) : T.Plane.update_from_ext_31.safe self m := version_safe m L
theorem plane_new_safe (now : Int) : T.Plane.new.safe now := trivial

end Sq.Safe
