/-
Trap-freedom of the translated code (C01's arithmetic clause).

`Generated/TransSafe.lean` (regenerated from /repo's source on every run by `extract/rs2safe.py`) states, for every translated
function, the conjunction of the conditions under which none of its operations panics - unsigned subtraction, overflowing
`+`/`*`, over-wide shifts, indexing, `expect`/`unwrap`, division by zero, and the safety of every call it makes - each under the
path condition of its site.  This file proves those propositions under the hypotheses the callers establish: a vector of
nibbles (`AllNib`) of the length the downlink format needs.  A changed or new operation in the source changes the generated
proposition and the proof below has to go through again.
-/
import SqModel.Generated.TransSafe
import SqModel.Proofs.BridgeTable

namespace Sq.Safe
open Sq Bridge

theorem bit_location_safe (p : Nat) (h : 1 ≤ p) : T.bit_location.safe p := by
  unfold T.bit_location.safe; exact ⟨h, h⟩

/-- every read of bits `sb..eb` that lies inside the vector is trap-free -/
theorem range_value_safe (m : Msg) (sb eb : Nat) (h1 : 1 ≤ sb) (h2 : 1 ≤ eb) (h3 : eb ≤ 4 * m.length) (hl : m.length < 2 ^ 32) :
    T.range_value.safe m sb eb := by
  unfold T.range_value.safe
  simp only [bit_location_eq, bitLocation_eq]
  have hs : (sb - 1) % 4 < 4 := Nat.mod_lt _ (by decide)
  have he : (eb - 1) % 4 < 4 := Nat.mod_lt _ (by decide)
  have hb : (eb - 1) / 4 < m.length := by omega
  have hl' : m.length < 4294967296 := hl
  refine ⟨bit_location_safe sb h1, bit_location_safe eb h2, ?_⟩
  repeat' apply And.intro
  all_goals (intros; omega)


theorem flag_and_range_value_safe (m : Msg) (flag sb eb : Nat) (hf : flag ≤ 4 * m.length) (h1 : 1 ≤ sb) (h2 : 1 ≤ eb)
    (h3 : eb ≤ 4 * m.length) (hl : m.length < 2 ^ 32) : T.flag_and_range_value.safe m flag sb eb := by
  unfold T.flag_and_range_value.safe
  simp only [bit_location_eq, bitLocation_eq]
  have hm : (flag - 1) % 4 < 4 := Nat.mod_lt _ (by decide)
  refine ⟨fun h => bit_location_safe flag (by omega), ?_, ?_, ?_, range_value_safe m sb eb h1 h2 h3 hl⟩ <;> (intros; omega)

theorem status_flag_and_range_value_safe (m : Msg) (status flag sb eb : Nat) (hs : status ≤ 4 * m.length) (hf : flag ≤ 4 * m.length)
    (h1 : 1 ≤ sb) (h2 : 1 ≤ eb) (h3 : eb ≤ 4 * m.length) (hl : m.length < 2 ^ 32) :
    T.status_flag_and_range_value.safe m status flag sb eb := by
  unfold T.status_flag_and_range_value.safe
  simp only [bit_location_eq, bitLocation_eq]
  have hm : (status - 1) % 4 < 4 := Nat.mod_lt _ (by decide)
  refine ⟨fun h => bit_location_safe status (by omega), ?_, ?_, ?_, flag_and_range_value_safe m flag sb eb hf h1 h2 h3 hl⟩ <;> (intros; omega)

theorem get_downlink_format_safe (m : Msg) (h : 2 ≤ m.length) (hl : m.length < 2 ^ 32) : T.get_downlink_format.safe m :=
  range_value_safe m 1 5 (by decide) (by decide) (by omega) hl

/-- a field whose first bit is not after its last is always there -/
theorem range_value_isSome (m : Msg) (sb eb : Nat) (h1 : 1 ≤ sb) (h : sb ≤ eb) : (T.range_value m sb eb).isSome = true := by
  unfold T.range_value
  simp only [bit_location_eq, bitLocation_eq]
  have : ¬ ((eb - 1) / 4 < (sb - 1) / 4 ∨ ((eb - 1) / 4 = (sb - 1) / 4 ∧ (eb - 1) % 4 < (sb - 1) % 4)) := by omega
  simp [this]

theorem crc56_safe (m : Msg) (h : 8 ≤ m.length) (hl : m.length < 2 ^ 32) : T.crc56.safe m := by
  unfold T.crc56.safe
  exact ⟨range_value_safe m 1 32 (by decide) (by decide) (by omega) hl, range_value_isSome m 1 32 (by decide) (by decide)⟩

theorem crc112_safe (m : Msg) (h : 22 ≤ m.length) (hl : m.length < 2 ^ 32) : T.crc112.safe m := by
  unfold T.crc112.safe
  refine ⟨range_value_safe m 1 32 (by decide) (by decide) (by omega) hl, range_value_isSome m 1 32 (by decide) (by decide),
    range_value_safe m 33 64 (by decide) (by decide) (by omega) hl, range_value_isSome m 33 64 (by decide) (by decide),
    range_value_safe m 65 88 (by decide) (by decide) (by omega) hl, ?_⟩
  have := range_value_isSome m 65 88 (by decide) (by decide)
  simpa using this

/-- `get_crc` on a frame whose length fits its format -/
theorem get_crc_safe (m : Msg) (df : Nat) (h : (df ≤ 15 ∧ 8 ≤ m.length) ∨ (15 < df ∧ 22 ≤ m.length)) (hl : m.length < 2 ^ 32) :
    T.get_crc.safe m df := by
  unfold T.get_crc.safe
  constructor
  · intro hd; rcases h with h | h
    · exact crc56_safe m h.2 hl
    · omega
  · intro hd; rcases h with h | h
    · omega
    · exact crc112_safe m h.2 hl


/-- the length a frame has when the gate of `get_message` has let it through -/
def Fits (m : Msg) : Prop :=
  ∀ df, T.get_downlink_format m = some df → (df ≤ 15 ∧ m.length = 14) ∨ (16 ≤ df ∧ m.length = 28)

theorem parity_ok_safe (m : Msg) (h : 14 ≤ m.length) (hl : m.length ≤ 28) (hfit : Fits m) : T.parity_ok.safe m := by
  unfold T.parity_ok.safe
  have hlen : (m.length * 4) % 4294967296 = m.length * 4 := Nat.mod_eq_of_lt (by omega)
  have hl32 : m.length < 2 ^ 32 := by omega
  simp only [hlen]
  have hrv : T.range_value.safe m (m.length * 4 - 23) (m.length * 4) := range_value_safe m _ _ (by omega) (by omega) (by omega) hl32
  refine ⟨by omega, get_downlink_format_safe m (by omega) hl32, ?_, ?_, ?_, ?_, ?_, ?_⟩
  · intro o _ _; omega
  · intro o _ _; exact hrv
  · intro o ho h17
    split
    · apply get_crc_safe m o _ hl32
      rcases hfit o ho with ⟨a, b⟩ | ⟨a, b⟩ <;> [(rcases h17 with h17 | h17 <;> omega); (right; omega)]
    · trivial
  · intro o _ _; omega
  · intro o _ _; exact hrv
  · intro o ho h11
    split
    · apply get_crc_safe m 11 _ hl32
      left; exact ⟨by decide, by omega⟩
    · trivial


theorem ma_code_safe (m : Msg) (h : 8 ≤ m.length) : T.ma_code.safe m := by
  unfold T.ma_code.safe
  simp only [List.zipIdx]
  refine ⟨?_, ?_, ?_, ?_⟩ <;> (intro _ p hp; simp at hp; rcases hp with h | h | h | h | h | h | h | h | h | h | h | h | h | h <;> subst h <;> simp <;> omega)

theorem extract_bit_safe (v b : Nat) (h : b < 16) : T.extract_bit.safe v b := h

theorem graytobin_safe (m : Msg) (h : 8 ≤ m.length) : T.graytobin.safe m := by
  unfold T.graytobin.safe
  refine ⟨ma_code_safe m h, ?_, ?_, ?_, ?_, ?_, ?_, ?_, ?_, ?_, ?_⟩ <;> (split <;> first | (show _ < 16; decide) | trivial)

theorem clean_squitter_safe (cs : List Char) : T.clean_squitter.safe cs := by
  unfold T.clean_squitter.safe
  intro h
  omega


/-- **`get_message` never traps, on any line**: the gate itself establishes what its later stages need -/
theorem get_message_safe (cs : List Char) : T.get_message.safe cs := by
  unfold T.get_message.safe
  refine ⟨clean_squitter_safe cs, ?_, ?_⟩
  · split
    · rename_i m hm
      rw [Option.filter_eq_some_iff] at hm
      have hlen : m.length = 14 ∨ m.length = 28 := by simpa using hm.2
      exact get_downlink_format_safe m (by omega) (by omega)
    · trivial
  · split
    · rename_i m hm
      rw [Option.filter_eq_some_iff] at hm
      obtain ⟨hm, _⟩ := hm
      rw [Option.filter_eq_some_iff] at hm
      obtain ⟨hm, hfit⟩ := hm
      rw [Option.filter_eq_some_iff] at hm
      have hlen : m.length = 14 ∨ m.length = 28 := by simpa using hm.2
      apply parity_ok_safe m (by omega) (by omega)
      intro df hdf
      rw [hdf] at hfit
      by_cases h15 : df ≤ 15
      · left; simpa [h15] using hfit
      · right; simp [h15] at hfit; omega
    · trivial

theorem get_icao_safe (m : Msg) (df : Nat) (h : 14 ≤ m.length) (hl : m.length ≤ 28)
    (hfit : (df ≤ 15 ∧ 8 ≤ m.length) ∨ (15 < df ∧ 22 ≤ m.length)) : T.get_icao.safe m df := by
  unfold T.get_icao.safe
  have hlen : (m.length * 4) % 4294967296 = m.length * 4 := Nat.mod_eq_of_lt (by omega)
  have hl32 : m.length < 2 ^ 32 := by omega
  simp only [hlen]
  refine ⟨fun _ => by omega, fun _ => by omega, fun _ => range_value_safe m _ _ (by omega) (by omega) (by omega) hl32, ?_,
    fun _ => range_value_safe m 9 32 (by decide) (by decide) (by omega) hl32⟩
  intro _
  split
  · exact get_crc_safe m df hfit hl32
  · trivial

end Sq.Safe
