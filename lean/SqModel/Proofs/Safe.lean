/-
Trap-freedom of the translated code (C01's arithmetic clause).

`Generated/TransSafe.lean` (regenerated from /repo's source on every run by `extract/rs2safe.py`) states, for every translated
function, the conjunction of the conditions under which none of its operations panics - unsigned subtraction, overflowing
`+`/`*`, over-wide shifts, indexing, `expect`/`unwrap`, division by zero, and the safety of every call it makes - each under the
path condition of its site.  This file proves those propositions under the hypotheses the callers establish: a vector of
nibbles (`AllNib`) of the length the downlink format needs.  A changed or new operation in the source changes the generated
proposition and the proof below has to go through again.
-/
import SqModel.Generated.TransSafe
import SqModel.Proofs.BridgeTable

namespace Sq.Safe
open Sq Bridge

theorem bit_location_safe (p : Nat) (h : 1 ≤ p) : T.bit_location.safe p := by
  unfold T.bit_location.safe; exact ⟨h, h⟩

/-- every read of bits `sb..eb` that lies inside the vector is trap-free -/
theorem range_value_safe (m : Msg) (sb eb : Nat) (h1 : 1 ≤ sb) (h2 : 1 ≤ eb) (h3 : eb ≤ 4 * m.length) (hl : m.length < 2 ^ 32) :
    T.range_value.safe m sb eb := by
  unfold T.range_value.safe
  simp only [bit_location_eq, bitLocation_eq]
  have hs : (sb - 1) % 4 < 4 := Nat.mod_lt _ (by decide)
  have he : (eb - 1) % 4 < 4 := Nat.mod_lt _ (by decide)
  have hb : (eb - 1) / 4 < m.length := by omega
  have hl' : m.length < 4294967296 := hl
  refine ⟨bit_location_safe sb h1, bit_location_safe eb h2, ?_⟩
  repeat' apply And.intro
  all_goals (intros; omega)

end Sq.Safe
