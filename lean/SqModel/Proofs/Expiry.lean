/-
Row life time: last-contact stamps, the sweep schedule and what a sweep keeps.
-/
import SqModel.Proofs.Table

namespace Sq

/-- an accepted frame stamps its row with the current time - on both update paths -/
theorem applyFrame_timestamp (env : Env) (cfg : DecodeCfg) (now : Int) (p : Plane) (dl : DFRec) (m : Msg) (df : Nat) :
    (applyFrame env cfg now p dl m df).timestamp = now := by
  have eE : ∀ q : Plane, (eraseExt q).timestamp = q.timestamp := fun _ => rfl
  have eM : ∀ q : Plane, (eraseModeS q).timestamp = q.timestamp := fun _ => rfl
  unfold applyFrame
  split
  · unfold Plane.updateFromDownlink
    cases dl with
    | srt v => simp only [Plane.amendSrt]; split <;> rfl
    | ext v => simp only; rw [← eE, eraseExt_amendExt, eE]
    | mds i => rfl
  · unfold Plane.update
    simp only
    generalize hp1 : Plane.updateFromBcast { p with timestamp := now, lastDf := df } m df = p1
    have h1 : p1.timestamp = now := by rw [← hp1]; rfl
    generalize hp2 : (if df = 17 ∨ df = 18 then p1.updateFromExt env m df else p1) = p2
    have h2 : p2.timestamp = now := by
      rw [← hp2]; split
      · rw [← eE, eraseExt_updateFromExt, eE]; exact h1
      · exact h1
    split
    · rw [← eM, eraseModeS_updateFromModeS, eM]; exact h2
    · exact h2

/-- the sweep counter after one accepted frame -/
def stepCount (c : Nat) : Nat := if c > 10 then 1 else c + 1

theorem cleanupCount_accepted (env : Env) (cfg : DecodeCfg) (now : Int) (s : RState) (line : List Nat)
    (m : Msg) (df icao : Nat) (h : acceptedFrame cfg line = some (m, df, icao)) :
    (stepLine env cfg now s line).cleanupCount = stepCount s.cleanupCount := by
  obtain ⟨_, hdf, _, _⟩ := acceptedFrame_df cfg line m df icao h
  obtain ⟨dl, hdl⟩ := fromMessage_some env m df hdf
  unfold stepLine
  rw [h]
  simp only
  rw [hdl]
  simp only [cleanup, stepCount]
  by_cases hc : cfg.countDf = true <;> by_cases h10 : s.cleanupCount > 10 <;> simp [hc, h10]

theorem cleanupCount_not_accepted (env : Env) (cfg : DecodeCfg) (now : Int) (s : RState) (line : List Nat)
    (h : acceptedFrame cfg line = none) : (stepLine env cfg now s line).cleanupCount = s.cleanupCount := by
  rw [stepLine_not_accepted env cfg now s line h]

/-- the counter never exceeds 11 -/
theorem stepCount_le (c : Nat) (h : c ≤ 11) : stepCount c ≤ 11 := by
  unfold stepCount; split <;> omega

/-- from any reachable counter value a sweep is due within the next 12 accepted frames -/
theorem sweep_within_12 : ∀ c : Fin 12, ∃ j : Fin 12, iter stepCount j.val c.val > 10 := by decide +kernel

theorem iter_succ' {α : Type} (f : α → α) (n : Nat) (x : α) : iter f (n + 1) x = iter f n (f x) := rfl

/-- ... and sweeps are 11 frames apart -/
theorem sweep_period (c : Nat) (h : c > 10) :
    iter stepCount 11 c = 11 ∧ ∀ j, 1 ≤ j → j < 11 → iter stepCount j c ≤ 10 := by
  have h1 : stepCount c = 1 := by unfold stepCount; simp [h]
  constructor
  · rw [show (11 : Nat) = 10 + 1 from rfl, iter_succ', h1]; decide +kernel
  · intro j hj1 hj2
    obtain ⟨k, rfl⟩ : ∃ k, j = k + 1 := ⟨j - 1, by omega⟩
    rw [iter_succ', h1]
    have : ∀ k : Fin 10, iter stepCount k.val 1 ≤ 10 := by decide +kernel
    exact this ⟨k, by omega⟩

/-- what the table is after an accepted frame that triggers the sweep: exactly the rows (the
    frame's own row included) whose last contact is fewer than `delete_after` whole seconds ago -/
theorem sweep_exact (env : Env) (cfg : DecodeCfg) (now : Int) (s : RState) (line : List Nat)
    (m : Msg) (df icao : Nat) (h : acceptedFrame cfg line = some (m, df, icao)) (hs : s.cleanupCount > 10) :
    ∃ dl, (stepLine env cfg now s line).table
      = (updateAircraft env cfg now s.table dl m df icao).filter
          (fun kp => numSeconds now kp.2.timestamp < cfg.deleteAfter) := by
  obtain ⟨dl, _, ht⟩ := stepLine_accepted env cfg now s line m df icao h
  exact ⟨dl, by rw [ht, if_pos hs]⟩

/-- without a due sweep nothing is removed -/
theorem no_sweep_keeps (env : Env) (cfg : DecodeCfg) (now : Int) (s : RState) (line : List Nat)
    (m : Msg) (df icao : Nat) (h : acceptedFrame cfg line = some (m, df, icao)) (hs : ¬ s.cleanupCount > 10) :
    ∃ dl, (stepLine env cfg now s line).table = updateAircraft env cfg now s.table dl m df icao := by
  obtain ⟨dl, _, ht⟩ := stepLine_accepted env cfg now s line m df icao h
  exact ⟨dl, by rw [ht, if_neg hs]⟩

/-- the row of the frame's own address after an accepted line, if it survives the sweep -/
theorem own_row_after (env : Env) (cfg : DecodeCfg) (now : Int) (s : RState) (line : List Nat)
    (m : Msg) (df icao : Nat) (h : acceptedFrame cfg line = some (m, df, icao)) (hnd : s.table.keys.Nodup)
    (hpos : 0 < cfg.deleteAfter) :
    ∃ q, Table.lookup (stepLine env cfg now s line).table icao = some q ∧ q.timestamp = now := by
  obtain ⟨dl, _, ht⟩ := stepLine_accepted env cfg now s line m df icao h
  have hsame := lookup_updateAircraft_same env cfg now s.table dl m df icao
  have hex : ∃ q, Table.lookup (updateAircraft env cfg now s.table dl m df icao) icao = some q ∧ q.timestamp = now := by
    cases hl : Table.lookup s.table icao with
    | some p => rw [hl] at hsame; exact ⟨_, hsame, applyFrame_timestamp env cfg now p dl m df⟩
    | none => rw [hl] at hsame; exact ⟨_, hsame, fromDownlink_timestamp env now dl icao⟩
  obtain ⟨q, hq, hts⟩ := hex
  refine ⟨q, ?_, hts⟩
  rw [ht]
  split
  · rw [lookup_filter _ _ icao (nodup_updateAircraft env cfg now s.table dl m df icao hnd), hq]
    have : numSeconds now q.timestamp = 0 := by rw [hts]; unfold numSeconds; simp
    simp [this, hpos]
  · exact hq

/-- an aircraft heard fewer than `delete_after` whole seconds ago is still in the table after any
    accepted frame of any aircraft, sweep or not -/
theorem never_removed_while_heard (env : Env) (cfg : DecodeCfg) (now : Int) (s : RState) (line : List Nat)
    (m : Msg) (df icao a : Nat) (p : Plane) (h : acceptedFrame cfg line = some (m, df, icao))
    (hnd : s.table.keys.Nodup) (hp : Table.lookup s.table a = some p)
    (hage : numSeconds now p.timestamp < cfg.deleteAfter) (hclock : p.timestamp ≤ now) :
    ∃ q, Table.lookup (stepLine env cfg now s line).table a = some q := by
  have hpos : 0 < cfg.deleteAfter := by
    have : 0 ≤ numSeconds now p.timestamp := by
      unfold numSeconds; exact Int.tdiv_nonneg (by omega) (by decide)
    omega
  by_cases ha : a = icao
  · subst ha
    obtain ⟨q, hq, _⟩ := own_row_after env cfg now s line m df a h hnd hpos
    exact ⟨q, hq⟩
  · obtain ⟨dl, _, ht⟩ := stepLine_accepted env cfg now s line m df icao h
    have hother := lookup_updateAircraft_other env cfg now s.table dl m df icao a ha
    refine ⟨p, ?_⟩
    rw [ht]
    split
    · rw [lookup_filter _ _ a (nodup_updateAircraft env cfg now s.table dl m df icao hnd), hother, hp]
      simp [hage]
    · rw [hother, hp]

/-- a line that is not accepted removes nobody -/
theorem not_accepted_keeps (env : Env) (cfg : DecodeCfg) (now : Int) (s : RState) (line : List Nat)
    (h : acceptedFrame cfg line = none) : (stepLine env cfg now s line).table = s.table := by
  rw [stepLine_not_accepted env cfg now s line h]

/-- a sweep removes every row silent for `delete_after` seconds or more -/
theorem sweep_removes_silent (env : Env) (cfg : DecodeCfg) (now : Int) (s : RState) (line : List Nat)
    (m : Msg) (df icao a : Nat) (p : Plane) (h : acceptedFrame cfg line = some (m, df, icao))
    (hs : s.cleanupCount > 10) (hnd : s.table.keys.Nodup) (ha : a ≠ icao)
    (hp : Table.lookup s.table a = some p) (hold : ¬ numSeconds now p.timestamp < cfg.deleteAfter) :
    Table.lookup (stepLine env cfg now s line).table a = none := by
  obtain ⟨dl, _, ht⟩ := stepLine_accepted env cfg now s line m df icao h
  rw [ht, if_pos hs, lookup_filter _ _ a (nodup_updateAircraft env cfg now s.table dl m df icao hnd),
    lookup_updateAircraft_other env cfg now s.table dl m df icao a ha, hp]
  simp [hold]

/-- after a sweep every row in the table was heard fewer than `delete_after` seconds ago -/
theorem after_sweep_all_fresh (env : Env) (cfg : DecodeCfg) (now : Int) (s : RState) (line : List Nat)
    (m : Msg) (df icao : Nat) (h : acceptedFrame cfg line = some (m, df, icao)) (hs : s.cleanupCount > 10) :
    ∀ kp ∈ (stepLine env cfg now s line).table, numSeconds now kp.2.timestamp < cfg.deleteAfter := by
  obtain ⟨dl, ht⟩ := sweep_exact env cfg now s line m df icao h hs
  rw [ht]
  intro kp hkp
  have := (List.mem_filter.mp hkp).2
  simpa using this

/-- rows enter the table only as the row of an accepted frame's address -/
theorem keys_after (env : Env) (cfg : DecodeCfg) (now : Int) (s : RState) (line : List Nat) (a : Nat)
    (ha : a ∈ (stepLine env cfg now s line).table.keys) :
    a ∈ s.table.keys ∨ ∃ m df, acceptedFrame cfg line = some (m, df, a) := by
  cases hf : acceptedFrame cfg line with
  | none => left; rw [stepLine_not_accepted env cfg now s line hf] at ha; exact ha
  | some x =>
    obtain ⟨m, df, icao⟩ := x
    obtain ⟨dl, _, ht⟩ := stepLine_accepted env cfg now s line m df icao hf
    rw [ht] at ha
    have hsub : a ∈ (updateAircraft env cfg now s.table dl m df icao).keys := by
      split at ha
      · exact (keys_filter_sublist _ _).subset ha
      · exact ha
    rw [keys_updateAircraft] at hsub
    split at hsub
    · left; exact hsub
    · rcases List.mem_append.mp hsub with h1 | h1
      · left; exact h1
      · right; simp at h1; subst h1; exact ⟨m, df, rfl⟩

end Sq
