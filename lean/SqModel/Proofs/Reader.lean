/-
The line loop as a fold: what a segment does is what its accepted lines do (C13), the DF counters
count exactly the accepted lines (C16), and line splitting never loses or merges lines.
-/
import SqModel.Proofs.Table

namespace Sq

/-- the DF of an accepted line -/
def acceptedDf (cfg : DecodeCfg) (line : List Nat) : Option Nat := (acceptedFrame cfg line).map (·.2.1)

def isAccepted (cfg : DecodeCfg) (line : List Nat) : Bool := (acceptedFrame cfg line).isSome

theorem foldl_stepLine_filter (env : Env) (cfg : DecodeCfg) (now : Int) (lines : List (List Nat)) (s : RState) :
    lines.foldl (stepLine env cfg now) s = (lines.filter (isAccepted cfg)).foldl (stepLine env cfg now) s := by
  induction lines generalizing s with
  | nil => rfl
  | cons l ls ih =>
    rw [List.filter_cons]
    cases h : isAccepted cfg l with
    | true => simp only [List.foldl_cons, if_true]; exact ih _
    | false =>
      have : acceptedFrame cfg l = none := by
        unfold isAccepted at h; cases hf : acceptedFrame cfg l <;> simp_all
      simp only [List.foldl_cons, stepLine_not_accepted env cfg now s l this]
      exact ih s

/-- C13: the state after a segment is the state after the subsequence of its accepted lines -/
theorem runSegment_filter (env : Env) (cfg : DecodeCfg) (now : Int) (t : Table) (lines : List (List Nat)) :
    runSegment env cfg now t lines = runSegment env cfg now t (lines.filter (isAccepted cfg)) := by
  unfold runSegment; exact foldl_stepLine_filter env cfg now lines _

/-- inserting unusable lines anywhere changes nothing -/
theorem junk_insertion (env : Env) (cfg : DecodeCfg) (now : Int) (t : Table) (pre junk post : List (List Nat))
    (hj : ∀ l ∈ junk, isAccepted cfg l = false) :
    runSegment env cfg now t (pre ++ junk ++ post) = runSegment env cfg now t (pre ++ post) := by
  rw [runSegment_filter, runSegment_filter env cfg now t (pre ++ post)]
  congr 1
  simp only [List.filter_append]
  have : junk.filter (isAccepted cfg) = [] := by
    rw [List.filter_eq_nil_iff]; intro l hl; simp [hj l hl]
  rw [this]; simp

-- counters ----------------------------------------------------------------------------------
/-- the counter map after counting a list of DFs -/
def countsOf (dfs : List Nat) : List (Nat × Int) := dfs.foldl bumpCount []

def cntLookup (c : List (Nat × Int)) (k : Nat) : Int := ((c.find? fun x => x.1 == k).map (·.2)).getD 0

/-- keys strictly ascending (the `BTreeMap` order) -/
def KeysAsc : List (Nat × Int) → Prop
  | [] => True
  | [_] => True
  | a :: b :: rest => a.1 < b.1 ∧ KeysAsc (b :: rest)

theorem keysAsc_tail {a : Nat × Int} {l : List (Nat × Int)} (h : KeysAsc (a :: l)) : KeysAsc l := by
  cases l with
  | nil => trivial
  | cons b r => exact h.2

theorem bumpCount_head_ge (c : List (Nat × Int)) (df lo : Nat) (hlo : lo ≤ df)
    (h : ∀ x ∈ c, lo ≤ x.1) : ∀ x ∈ bumpCount c df, lo ≤ x.1 := by
  induction c with
  | nil => intro x hx; simp [bumpCount] at hx; subst hx; exact hlo
  | cons a r ih =>
    obtain ⟨k, v⟩ := a
    have hk : lo ≤ k := h (k, v) (by simp)
    have hr : ∀ y ∈ r, lo ≤ y.1 := fun y hy => h y (by simp [hy])
    intro x hx
    unfold bumpCount at hx
    split at hx
    · rcases List.mem_cons.mp hx with rfl | hx
      · exact hlo
      · rcases List.mem_cons.mp hx with rfl | hx
        · exact hk
        · exact hr x hx
    · split at hx
      · rcases List.mem_cons.mp hx with rfl | hx
        · exact hk
        · exact hr x hx
      · rcases List.mem_cons.mp hx with rfl | hx
        · exact hk
        · exact ih hr x hx

theorem keysAsc_cons_of (a : Nat × Int) (l : List (Nat × Int)) (h : KeysAsc l) (hlt : ∀ x ∈ l, a.1 < x.1) :
    KeysAsc (a :: l) := by
  cases l with
  | nil => trivial
  | cons b r => exact ⟨hlt b (by simp), h⟩

theorem keysAsc_all_gt {a : Nat × Int} {l : List (Nat × Int)} (h : KeysAsc (a :: l)) : ∀ x ∈ l, a.1 < x.1 := by
  induction l generalizing a with
  | nil => intro x hx; simp at hx
  | cons b r ih =>
    intro x hx
    rcases List.mem_cons.mp hx with rfl | hx'
    · exact h.1
    · exact Nat.lt_trans h.1 (ih h.2 x hx')

theorem bumpCount_keysAsc (c : List (Nat × Int)) (df : Nat) (h : KeysAsc c) : KeysAsc (bumpCount c df) := by
  induction c with
  | nil => trivial
  | cons a r ih =>
    obtain ⟨k, v⟩ := a
    unfold bumpCount
    split
    · rename_i hlt; exact ⟨hlt, h⟩
    · split
      · rename_i heq
        exact keysAsc_cons_of (k, v + 1) r (keysAsc_tail h) (fun x hx => keysAsc_all_gt h x hx)
      · rename_i hnlt hne
        have hgt : k < df := by omega
        apply keysAsc_cons_of (k, v) _ (ih (keysAsc_tail h))
        intro x hx
        exact bumpCount_head_ge r df (k + 1) (by omega) (fun y hy => keysAsc_all_gt h y hy) x hx

theorem cntLookup_bump (c : List (Nat × Int)) (df k : Nat) (h : KeysAsc c) :
    cntLookup (bumpCount c df) k = cntLookup c k + (if k = df then 1 else 0) := by
  induction c with
  | nil =>
    unfold bumpCount cntLookup
    by_cases hk : k = df
    · subst hk; simp
    · have : ¬ df = k := fun h => hk h.symm
      simp [hk, this]
  | cons a r ih =>
    obtain ⟨k0, v⟩ := a
    have hgt := keysAsc_all_gt h
    unfold bumpCount
    split
    · rename_i hlt
      unfold cntLookup
      by_cases hk : k = df
      · subst hk
        have h1 : ¬ k0 = k := by omega
        have h2 : (r.find? fun x => x.1 == k) = none := by
          rw [List.find?_eq_none]; intro x hx; have := hgt x hx; simp; omega
        simp [List.find?_cons, h1, h2]
      · have : ¬ df = k := fun h => hk h.symm
        simp [List.find?_cons, hk, this]
    · split
      · rename_i hnlt heq
        subst heq
        unfold cntLookup
        by_cases hk : k = df
        · subst hk; simp [List.find?_cons]
        · have : ¬ df = k := fun h => hk h.symm
          simp [List.find?_cons, hk, this]
      · rename_i hnlt hne
        have ih' := ih (keysAsc_tail h)
        unfold cntLookup at ih' ⊢
        by_cases hk0 : k0 = k
        · subst hk0
          have : ¬ k0 = df := fun h => hne h.symm
          simp [List.find?_cons, this]
        · simp only [List.find?_cons, show (k0 == k) = false by simp [hk0]]
          exact ih'

theorem cleanup_dfCount (cfg : DecodeCfg) (now : Int) (s : RState) : (cleanup cfg now s).dfCount = s.dfCount := by
  unfold cleanup; simp only; split <;> rfl

/-- the DF counters after a segment are the counters of its accepted lines' DFs -/
theorem dfCount_foldl (env : Env) (cfg : DecodeCfg) (now : Int) (lines : List (List Nat)) (s : RState) :
    (lines.foldl (stepLine env cfg now) s).dfCount
      = if cfg.countDf then (lines.filterMap (acceptedDf cfg)).foldl bumpCount s.dfCount else s.dfCount := by
  induction lines generalizing s with
  | nil => simp
  | cons l ls ih =>
    simp only [List.foldl_cons, List.filterMap_cons]
    rw [ih]
    have hstep : (stepLine env cfg now s l).dfCount
        = match acceptedDf cfg l with
          | some df => if cfg.countDf then bumpCount s.dfCount df else s.dfCount
          | none => s.dfCount := by
      unfold stepLine acceptedDf
      cases hf : acceptedFrame cfg l with
      | none => rfl
      | some x =>
        obtain ⟨m, df, icao⟩ := x
        simp only [Option.map_some]
        by_cases hc : cfg.countDf = true
        · simp only [hc, if_true]
          cases hd : DFRec.fromMessage env m with
          | none => rfl
          | some dl => simp only [cleanup_dfCount]
        · simp only [hc, if_false]
          cases hd : DFRec.fromMessage env m with
          | none => rfl
          | some dl => simp only [cleanup_dfCount]; simp [hc]
    rw [hstep]
    cases acceptedDf cfg l with
    | none => rfl
    | some df => by_cases hc : cfg.countDf = true <;> simp [hc]

theorem dfCount_runSegment (env : Env) (cfg : DecodeCfg) (now : Int) (t : Table) (lines : List (List Nat)) :
    (runSegment env cfg now t lines).dfCount
      = if cfg.countDf then countsOf (lines.filterMap (acceptedDf cfg)) else [] := by
  unfold runSegment countsOf
  rw [dfCount_foldl]

theorem countsOf_keysAsc (dfs : List Nat) : KeysAsc (countsOf dfs) := by
  unfold countsOf
  have : ∀ (c : List (Nat × Int)), KeysAsc c → KeysAsc (dfs.foldl bumpCount c) := by
    induction dfs with
    | nil => intro c h; exact h
    | cons d ds ih => intro c h; exact ih _ (bumpCount_keysAsc c d h)
  exact this [] trivial

theorem cntLookup_countsOf (dfs : List Nat) (k : Nat) : cntLookup (countsOf dfs) k = (dfs.count k : Int) := by
  unfold countsOf
  have : ∀ (c : List (Nat × Int)), KeysAsc c →
      cntLookup (dfs.foldl bumpCount c) k = cntLookup c k + (dfs.count k : Int) := by
    induction dfs with
    | nil => intro c _; simp
    | cons d ds ih =>
      intro c h
      simp only [List.foldl_cons]
      rw [ih _ (bumpCount_keysAsc c d h), cntLookup_bump c d k h, List.count_cons]
      by_cases hk : k = d
      · subst hk; simp; omega
      · have : ¬ d = k := fun h => hk h.symm
        simp [hk, this]
  have h := this [] trivial
  simpa [cntLookup] using h

-- line splitting -------------------------------------------------------------------------------
theorem splitLines_go_append (cur : List Nat) (acc : List (List Nat)) (a b : List Nat) (ha : 10 ∉ a) :
    splitLines.go cur acc (a ++ 10 :: b) = splitLines.go [] ((a.reverse ++ cur).reverse :: acc) b := by
  induction a generalizing cur with
  | nil => simp [splitLines.go]
  | cons x xs ih =>
    have hx : x ≠ 10 := fun h => ha (by simp [h])
    have hxs : 10 ∉ xs := fun h => ha (by simp [h])
    simp only [List.cons_append, splitLines.go, hx, if_false]
    rw [ih (x :: cur) hxs]
    simp

/-- a line (without newline byte) followed by a newline is split off intact, whatever bytes it
    contains, and splitting continues behind it -/
theorem splitLines_cons_line (a b : List Nat) (ha : 10 ∉ a) :
    splitLines (a ++ 10 :: b) = a :: splitLines b := by
  unfold splitLines
  rw [splitLines_go_append [] [] a b ha]
  simp only [List.append_nil, List.reverse_reverse]
  have : ∀ (bs : List Nat) (cur : List Nat) (acc : List (List Nat)) (x : List Nat),
      splitLines.go cur (acc ++ [x]) bs = x :: splitLines.go cur acc bs := by
    intro bs
    induction bs with
    | nil => intro cur acc x; simp only [splitLines.go]; split <;> simp
    | cons c cs ih =>
      intro cur acc x
      simp only [splitLines.go]
      split
      · rw [show cur.reverse :: (acc ++ [x]) = (cur.reverse :: acc) ++ [x] by simp, ih]
      · exact ih _ _ _
  exact this b [] [] a

end Sq
