/-
The aircraft table: lookups after `update_aircraft` and `cleanup`, distinct keys, and the
facts about `stepLine` that hold for every state.
-/
import SqModel.Model.Table
import SqModel.Proofs.Frame

namespace Sq

theorem lookup_cons (k : Nat) (p : Plane) (t : Table) (a : Nat) :
    Table.lookup ((k, p) :: t) a = if k = a then some p else Table.lookup t a := by
  unfold Table.lookup
  by_cases h : k = a <;> simp [List.find?_cons, h]

theorem lookup_nil (a : Nat) : Table.lookup [] a = none := rfl

theorem lookup_none_iff (t : Table) (a : Nat) : Table.lookup t a = none ↔ a ∉ t.keys := by
  induction t with
  | nil => simp [lookup_nil, Table.keys]
  | cons kp t ih =>
    obtain ⟨k, p⟩ := kp
    rw [lookup_cons]
    by_cases h : k = a
    · simp [h, Table.keys]
    · simp only [h, if_false, ih, Table.keys, List.map_cons, List.mem_cons]
      constructor
      · intro hn hc; rcases hc with hc | hc
        · exact h hc.symm
        · exact hn hc
      · intro hn hc; exact hn (Or.inr hc)

theorem any_key_iff (t : Table) (a : Nat) : t.any (fun kp => kp.1 == a) = true ↔ a ∈ t.keys := by
  simp [Table.keys, List.any_eq_true]

/-- mapping the rows of one key -/
theorem lookup_map_key (t : Table) (f : Plane → Plane) (icao b : Nat) :
    Table.lookup (t.map fun kp => if kp.1 == icao then (kp.1, f kp.2) else kp) b
      = if b = icao then (Table.lookup t b).map f else Table.lookup t b := by
  induction t with
  | nil => simp [lookup_nil]
  | cons kp t ih =>
    obtain ⟨k, p⟩ := kp
    rw [List.map_cons]
    by_cases hk : k = icao
    · have e : (if ((k, p).1 == icao) = true then ((k, p).1, f (k, p).2) else (k, p)) = (k, f p) := by
        simp [hk]
      rw [e, lookup_cons, lookup_cons, ih]
      by_cases hb : k = b
      · have : b = icao := by omega
        simp [hb, this]
      · simp [hb]
    · have e : (if ((k, p).1 == icao) = true then ((k, p).1, f (k, p).2) else (k, p)) = (k, p) := by
        simp [hk]
      rw [e, lookup_cons, lookup_cons, ih]
      by_cases hb : k = b
      · have : ¬ b = icao := by omega
        simp [hb, this]
      · simp [hb]

theorem lookup_append_single (t : Table) (k : Nat) (p : Plane) (b : Nat) :
    Table.lookup (t ++ [(k, p)]) b
      = match Table.lookup t b with
        | some q => some q
        | none => if k = b then some p else none := by
  induction t with
  | nil => simp [lookup_cons, lookup_nil]
  | cons kp t ih =>
    obtain ⟨k', p'⟩ := kp
    simp only [List.cons_append, lookup_cons]
    by_cases h : k' = b
    · simp [h]
    · simp only [h, if_false, ih]

/-- the row of the frame's own address after `update_aircraft` -/
theorem lookup_updateAircraft_same (env : Env) (cfg : DecodeCfg) (now : Int) (t : Table) (dl : DFRec)
    (m : Msg) (df icao : Nat) :
    Table.lookup (updateAircraft env cfg now t dl m df icao) icao
      = some (match Table.lookup t icao with
              | some p => applyFrame env cfg now p dl m df
              | none => Plane.fromDownlink env now dl icao) := by
  unfold updateAircraft
  split
  · rename_i h
    rw [lookup_map_key t (fun p => applyFrame env cfg now p dl m df) icao icao]
    simp only [if_true]
    have : icao ∈ t.keys := (any_key_iff t icao).mp h
    cases hl : Table.lookup t icao with
    | none => exact absurd this ((lookup_none_iff t icao).mp hl)
    | some p => rfl
  · rename_i h
    have hn : icao ∉ t.keys := fun hc => h ((any_key_iff t icao).mpr hc)
    rw [lookup_append_single, (lookup_none_iff t icao).mpr hn]
    simp

/-- every other row is untouched by `update_aircraft` -/
theorem lookup_updateAircraft_other (env : Env) (cfg : DecodeCfg) (now : Int) (t : Table) (dl : DFRec)
    (m : Msg) (df icao b : Nat) (hb : b ≠ icao) :
    Table.lookup (updateAircraft env cfg now t dl m df icao) b = Table.lookup t b := by
  unfold updateAircraft
  split
  · rw [lookup_map_key t (fun p => applyFrame env cfg now p dl m df) icao b]; simp [hb]
  · rw [lookup_append_single]
    have : ¬ icao = b := fun h => hb h.symm
    cases Table.lookup t b <;> simp [this]

theorem keys_updateAircraft (env : Env) (cfg : DecodeCfg) (now : Int) (t : Table) (dl : DFRec)
    (m : Msg) (df icao : Nat) :
    (updateAircraft env cfg now t dl m df icao).keys
      = if icao ∈ t.keys then t.keys else t.keys ++ [icao] := by
  unfold updateAircraft
  split
  · rename_i h
    rw [if_pos ((any_key_iff t icao).mp h)]
    unfold Table.keys
    rw [List.map_map]
    congr 1
    funext kp
    simp only [Function.comp]
    split <;> rfl
  · rename_i h
    have hn : icao ∉ t.keys := fun hc => h ((any_key_iff t icao).mpr hc)
    rw [if_neg hn]
    simp [Table.keys]

theorem nodup_updateAircraft (env : Env) (cfg : DecodeCfg) (now : Int) (t : Table) (dl : DFRec)
    (m : Msg) (df icao : Nat) (h : t.keys.Nodup) :
    (updateAircraft env cfg now t dl m df icao).keys.Nodup := by
  rw [keys_updateAircraft]
  split
  · exact h
  · rename_i hn
    rw [List.nodup_append]
    refine ⟨h, by simp, ?_⟩
    intro a ha b hb
    simp at hb; subst hb
    intro hab; subst hab; exact hn ha

/-- lookup in a filtered table with distinct keys -/
theorem lookup_filter (t : Table) (P : Nat × Plane → Bool) (b : Nat) (h : (Table.keys t).Nodup) :
    Table.lookup (t.filter P) b
      = match Table.lookup t b with
        | some p => if P (b, p) then some p else none
        | none => none := by
  induction t with
  | nil => rfl
  | cons kp t ih =>
    obtain ⟨k, p⟩ := kp
    have hn : (Table.keys t).Nodup := by
      simp [Table.keys] at h ⊢; exact h.2
    have hk : k ∉ Table.keys t := by
      simp [Table.keys] at h ⊢; exact fun x hx => h.1 x hx
    rw [lookup_cons]
    by_cases hb : k = b
    · subst hb
      simp only [if_true]
      rw [List.filter_cons]
      split
      · rw [lookup_cons]; simp
      · rename_i hp
        rw [ih hn, (lookup_none_iff t k).mpr hk]
    · simp only [hb, if_false]
      rw [List.filter_cons]
      split
      · rw [lookup_cons]; simp only [hb, if_false]; exact ih hn
      · exact ih hn

theorem keys_filter_sublist (t : Table) (P : Nat × Plane → Bool) :
    (Table.keys (t.filter P)).Sublist (Table.keys t) := by
  unfold Table.keys
  exact List.Sublist.map _ List.filter_sublist

theorem nodup_cleanup (cfg : DecodeCfg) (now : Int) (s : RState) (h : s.table.keys.Nodup) :
    (cleanup cfg now s).table.keys.Nodup := by
  unfold cleanup
  simp only
  split
  · exact List.Nodup.sublist (keys_filter_sublist _ _) h
  · exact h

/-- a line that is not accepted changes nothing: table, counters and sweep counter -/
theorem stepLine_not_accepted (env : Env) (cfg : DecodeCfg) (now : Int) (s : RState) (line : List Nat)
    (h : acceptedFrame cfg line = none) : stepLine env cfg now s line = s := by
  unfold stepLine; rw [h]

/-- processing depends on the digit sequence of the line only -/
theorem acceptedFrame_digits (cfg : DecodeCfg) (l₁ l₂ : List Nat) (h : hexDigits l₁ = hexDigits l₂) :
    acceptedFrame cfg l₁ = acceptedFrame cfg l₂ := by
  unfold acceptedFrame getMessage; rw [h]

theorem stepLine_digits (env : Env) (cfg : DecodeCfg) (now : Int) (s : RState) (l₁ l₂ : List Nat)
    (h : hexDigits l₁ = hexDigits l₂) : stepLine env cfg now s l₁ = stepLine env cfg now s l₂ := by
  unfold stepLine; rw [acceptedFrame_digits cfg l₁ l₂ h]

/-- distinct keys are an invariant of the line loop -/
theorem nodup_stepLine (env : Env) (cfg : DecodeCfg) (now : Int) (s : RState) (line : List Nat)
    (h : s.table.keys.Nodup) : (stepLine env cfg now s line).table.keys.Nodup := by
  unfold stepLine
  split
  · exact h
  · dsimp only
    split
    · apply nodup_cleanup
      simp only
      split <;> exact nodup_updateAircraft _ _ _ _ _ _ _ _ h
    · split <;> exact h

theorem nodup_runSegment (env : Env) (cfg : DecodeCfg) (now : Int) (t : Table) (lines : List (List Nat))
    (h : t.keys.Nodup) : (runSegment env cfg now t lines).table.keys.Nodup := by
  unfold runSegment
  have : ∀ (s : RState), s.table.keys.Nodup → (lines.foldl (stepLine env cfg now) s).table.keys.Nodup := by
    induction lines with
    | nil => intro s hs; exact hs
    | cons l ls ih => intro s hs; exact ih _ (nodup_stepLine env cfg now s l hs)
  exact this _ h

theorem acceptedFrame_df (cfg : DecodeCfg) (line : List Nat) (m : Msg) (df icao : Nat)
    (h : acceptedFrame cfg line = some (m, df, icao)) :
    getMessage line = some m ∧ getDownlinkFormat m = some df ∧ getIcao m df = some icao
      ∧ passesFilter cfg df = true := by
  unfold acceptedFrame at h
  split at h; · simp at h
  rename_i m' hm'
  split at h; · simp at h
  rename_i df' hdf'
  split at h; · simp at h
  rename_i icao' hi'
  split at h
  · rename_i hp
    simp only [Option.some.injEq, Prod.mk.injEq] at h
    obtain ⟨rfl, rfl, rfl⟩ := h
    exact ⟨hm', hdf', hi', hp⟩
  · simp at h

theorem fromMessage_some (env : Env) (m : Msg) (df : Nat) (hdf : getDownlinkFormat m = some df) :
    ∃ dl, DFRec.fromMessage env m = some dl := by
  unfold DFRec.fromMessage
  rw [hdf]
  simp only
  split
  · exact ⟨_, rfl⟩
  · split
    · exact ⟨_, rfl⟩
    · split <;> exact ⟨_, rfl⟩

/-- the table after an accepted line: the frame applied to its row, then the sweep if due -/
theorem stepLine_accepted (env : Env) (cfg : DecodeCfg) (now : Int) (s : RState) (line : List Nat)
    (m : Msg) (df icao : Nat) (h : acceptedFrame cfg line = some (m, df, icao)) :
    ∃ dl, DFRec.fromMessage env m = some dl ∧
      (stepLine env cfg now s line).table
        = if s.cleanupCount > 10 then
            (updateAircraft env cfg now s.table dl m df icao).filter
              (fun kp => numSeconds now kp.2.timestamp < cfg.deleteAfter)
          else updateAircraft env cfg now s.table dl m df icao := by
  obtain ⟨_, hdf, _, _⟩ := acceptedFrame_df cfg line m df icao h
  obtain ⟨dl, hdl⟩ := fromMessage_some env m df hdf
  refine ⟨dl, hdl, ?_⟩
  unfold stepLine
  rw [h]
  simp only
  rw [hdl]
  simp only [cleanup]
  by_cases hc : cfg.countDf = true <;> by_cases h10 : s.cleanupCount > 10 <;> simp [hc, h10]


/-- the row a frame leaves behind is stamped with the current time -/
theorem fromDownlink_timestamp (env : Env) (now : Int) (dl : DFRec) (icao : Nat) :
    (Plane.fromDownlink env now dl icao).timestamp = now := by
  have e1 : ∀ q : Plane, (eraseExt q).timestamp = q.timestamp := fun _ => rfl
  unfold Plane.fromDownlink Plane.updateFromDownlink
  cases dl with
  | srt v => simp only [Plane.amendSrt]; split <;> rfl
  | ext v => simp only; rw [← e1, eraseExt_amendExt, e1]
  | mds i => rfl


end Sq
