/-
`reminder` (crc.rs) returns 0 for every vector of at least six digits: its loop stops four bytes
before the three bytes it returns, which were initialised to zero.  (This is why the fix for the
parity gate had to add `parity_ok` instead of repairing `reminder`: a unit test pins the 0.)
-/
import SqModel.Model.Crc

namespace Sq

def TailZero (N : Nat) (bs : List Nat) : Prop :=
  bs.length = N ∧ ∀ t, N - 3 ≤ t → bs.getD t 0 = 0

theorem getD_set_ne (bs : List Nat) (i t v : Nat) (h : i ≠ t) : (bs.set i v).getD t 0 = bs.getD t 0 := by
  simp [List.getD_eq_getElem?_getD, List.getElem?_set_ne h]

theorem reminderBit_tail (gen : List Nat) (N i : Nat) (hi : i + 6 < N) (bs : List Nat) (j : Nat)
    (h : TailZero N bs) : TailZero N (reminderBit gen i bs j) := by
  unfold reminderBit
  simp only
  split
  · refine ⟨by simp [h.1], ?_⟩
    intro t ht
    rw [getD_set_ne _ _ _ _ (by omega), getD_set_ne _ _ _ _ (by omega), getD_set_ne _ _ _ _ (by omega),
      getD_set_ne _ _ _ _ (by omega)]
    exact h.2 t ht
  · exact h

theorem foldl_tail {α : Type} (P : List Nat → Prop) (f : List Nat → α → List Nat) (l : List α)
    (hf : ∀ bs a, a ∈ l → P bs → P (f bs a)) (bs : List Nat) (h : P bs) : P (l.foldl f bs) := by
  induction l generalizing bs with
  | nil => exact h
  | cons a l ih =>
    simp only [List.foldl_cons]
    exact ih (fun bs b hb => hf bs b (by simp [hb])) _ (hf bs a (by simp) h)

theorem reminder_eq_zero (m : Msg) (hl : 6 ≤ m.length) : reminder m = 0 := by
  unfold reminder
  simp only
  generalize hb0 : (m.take (m.length - 6)).map (· &&& 0xF) ++ List.replicate 6 0 = bytes0
  have hN : bytes0.length = m.length := by
    rw [← hb0]; simp; omega
  have h0 : TailZero m.length bytes0 := by
    refine ⟨hN, ?_⟩
    intro t ht
    rw [← hb0, List.getD_eq_getElem?_getD]
    by_cases hlt : t < m.length
    · rw [List.getElem?_append_right (by simp; omega)]
      simp
      have : t - (m.length - 6) = 3 ∨ t - (m.length - 6) = 4 ∨ t - (m.length - 6) = 5 := by omega
      rcases this with e | e | e <;> rw [e] <;> rfl
    · rw [List.getElem?_eq_none (by simp; omega)]; rfl
  have hfin : TailZero m.length
      ((List.range (bytes0.length - 6)).foldl
        (fun bs i => (List.range 8).foldl (reminderBit Gen.reminderGenerator i) bs) bytes0) := by
    apply foldl_tail (TailZero m.length)
    · intro bs i hi hbs
      have hi' : i + 6 < m.length := by
        have := List.mem_range.mp hi; omega
      apply foldl_tail (TailZero m.length)
      · intro bs j _ hbs; exact reminderBit_tail _ _ _ hi' bs j hbs
      · exact hbs
    · exact h0
  generalize (List.range (bytes0.length - 6)).foldl _ bytes0 = bytes at hfin
  rw [hfin.1, hfin.2 _ (by omega), hfin.2 _ (by omega), hfin.2 _ (by omega)]
  rfl

end Sq
