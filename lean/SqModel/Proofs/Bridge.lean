/-
Bridge: the definitions the translator generates from /repo's source (`Generated/Trans.lean`, namespace `Sq.T`)
are the hand-written model functions every property theorem is stated about.
-/
import SqModel.Generated.Trans
import SqModel.Proofs.BridgeBits
import SqModel.Model.Bds
import SqModel.Proofs.Ehs

namespace Sq.Bridge
open Sq Spec

theorem get_message_type_eq (m : Msg) : T.get_message_type m = getMessageType m := rfl
theorem get_capability_eq (m : Msg) : T.get_capability m = getCapability m := rfl
theorem me_code_eq (m : Msg) : T.me_code m = meCode m := rfl
theorem version_eq (m : Msg) : T.version m = adsbVersion m := rfl
theorem altitude_gnss_eq (m : Msg) : T.altitude_gnss m = altitudeGnss m := rfl
theorem surveillance_status_eq (m : Msg) : T.surveillance_status m = surveillanceStatus m := rfl
theorem heading_eq (m : Msg) : T.heading m = headingRaw m := rfl
theorem ground_track_eq (m : Msg) : T.ground_track m = groundTrack m := rfl
theorem cpr_eq (m : Msg) : T.cpr m = cpr m := by
  unfold T.cpr cpr
  cases flagAndRangeValue m 54 55 71 with
  | none => rfl
  | some v => rfl
theorem squawk_eq (m : Msg) : T.squawk m = squawk m := rfl
theorem threat_encounter_eq (m : Msg) : T.threat_encounter m = threatEncounter m := by
  simp [T.threat_encounter, threatEncounter]
theorem ia5_eq (c : Nat) : T.ia5 c = ia5 c := by
  simp [T.ia5, ia5]
theorem wake_eq (vc : Nat × Nat) : T.get_wake_turbulence_category vc = wakeCategory vc := by
  unfold T.get_wake_turbulence_category wakeCategory
  by_cases h : vc.1 = 4 <;> simp [h]
theorem mcp_eq (m : Msg) : T.mcp_selected_altitude m = mcpSelectedAltitude m := rfl
theorem fms_eq (m : Msg) : T.fms_selected_altitude m = fmsSelectedAltitude m := rfl
theorem tas_source_eq (m : Msg) : T.target_altitude_source m = targetAltitudeSource m := rfl
theorem baro_eq (m : Msg) : T.barometric_pressure_setting m = barometricPressureSetting m := by
  unfold T.barometric_pressure_setting barometricPressureSetting
  cases flagAndRangeValue m 59 60 71 with
  | none => rfl
  | some v => obtain ⟨s, x⟩ := v; by_cases h : s = 1 <;> simp [h]
theorem goodflags_eq (m : Msg) (f sb eb : Nat) : T.goodflags m f sb eb = goodflags m f sb eb := by
  unfold T.goodflags goodflags
  cases flagAndRangeValue m f sb eb with
  | none => rfl
  | some v =>
    obtain ⟨a, b⟩ := v
    by_cases h : a = 0 <;> by_cases hb : b = 0 <;> simp [h, hb]

/-- `x as i32` is the identity below 2^31 -/
theorem u32ToI32_of_lt {x : Nat} (h : x < 2147483648) : u32ToI32 x = (x : Int) := by
  simp [u32ToI32, h]

-- functions with a `u32 -> i32` cast: equal to the model on every 112-bit frame (field values are < 2^12)
theorem vertical_rate_eq (m : Msg) (L : Long m) : T.vertical_rate m = verticalRate m := by
  unfold T.vertical_rate verticalRate T.vertical_rate_value
  rw [far m L 69 70 78 (by omega) (by omega) (by omega) (by omega) (by omega)]
  have hb : field m 70 78 < 2 ^ (78 + 1 - 70) := field_lt m 70 78
  have h2 : (field m 70 78 - 1) <<< 6 < 2147483648 := by
    rw [Nat.shiftLeft_eq]; omega
  rw [filt2, filt2]
  simp [u32ToI32_of_lt h2]

theorem altitude_delta_eq (m : Msg) (L : Long m) : T.altitude_delta m = altitudeDelta m := by
  unfold T.altitude_delta altitudeDelta T.delta
  rw [far m L 81 82 88 (by omega) (by omega) (by omega) (by omega) (by omega)]
  have hb : field m 82 88 < 2 ^ (88 + 1 - 82) := field_lt m 82 88
  have h2 : field m 82 88 < 2147483648 := by omega
  rw [filt2, filt2]
  simp [u32ToI32_of_lt h2, Int.neg_mul]

-- ehs/bds_5_0.rs ------------------------------------------------------------------------------
theorem roll_angle_5_0_eq (m : Msg) (L : Long m) : T.roll_angle_5_0 m = rollAngle50 m := by
  unfold T.roll_angle_5_0 rollAngle50 T.roll_angle
  rw [sfar m L 33 34 35 43 (by omega) (by omega) (by omega) (by omega) (by omega) (by omega) (by omega)]
  have hb : field m 35 43 < 2 ^ (43 + 1 - 35) := field_lt m 35 43
  have h2 : field m 35 43 < 2147483648 := by omega
  rw [filt3, filt3]
  simp [u32ToI32_of_lt h2]

theorem track_angle_eq (s v : Nat) : T.track_angle s v = (if s = 0 then (v * 90) >>> 9 else (v * 90) >>> 9 + 180) := rfl
theorem magnetic_heading_eq (s v : Nat) : T.magnetic_heading s v = (if s = 0 then (v * 90) >>> 9 else (v * 90) >>> 9 + 180) := rfl
theorem track_angle_5_0_eq (m : Msg) : T.track_angle_5_0 m = trackAngle50 m := rfl

theorem track_angle_rate_5_0_eq (m : Msg) (L : Long m) : T.track_angle_rate_5_0 m = trackAngleRate50 m := by
  unfold T.track_angle_rate_5_0 trackAngleRate50 T.track_angle_rate
  rw [sfar m L 67 68 69 77 (by omega) (by omega) (by omega) (by omega) (by omega) (by omega) (by omega)]
  have hb : field m 69 77 < 2 ^ (77 + 1 - 69) := field_lt m 69 77
  have h2 : (field m 69 77 <<< 3) >>> 8 < 2147483648 := by
    rw [Nat.shiftLeft_eq, Nat.shiftRight_eq_div_pow]; omega
  rw [filt3, filt3]
  simp [u32ToI32_of_lt h2]

theorem ground_speed_5_0_eq (m : Msg) : T.ground_speed_5_0 m = groundSpeed50 m := rfl
theorem true_airspeed_5_0_eq (m : Msg) : T.true_airspeed_5_0 m = trueAirspeed50 m := rfl

-- ehs/bds_6_0.rs ------------------------------------------------------------------------------
theorem magnetic_heading_6_0_eq (m : Msg) : T.magnetic_heading_6_0 m = magneticHeading60 m := rfl
theorem indicated_airspeed_6_0_eq (m : Msg) : T.indicated_airspeed_6_0 m = indicatedAirspeed60 m := rfl

theorem barometric_altitude_rate_6_0_eq (m : Msg) (L : Long m) :
    T.barometric_altitude_rate_6_0 m = barometricAltitudeRate60 m := by
  unfold T.barometric_altitude_rate_6_0 barometricAltitudeRate60 T.barometric_altitude_rate
  rw [sfar m L 67 68 69 77 (by omega) (by omega) (by omega) (by omega) (by omega) (by omega) (by omega)]
  have hb : field m 69 77 < 2 ^ (77 + 1 - 69) := field_lt m 69 77
  have h2 : field m 69 77 < 2147483648 := by omega
  rw [filt3, filt3]
  simp [u32ToI32_of_lt h2, Nat.shiftLeft_eq]

theorem internal_vertical_velocity_6_0_eq (m : Msg) (L : Long m) :
    T.internal_vertical_velocity_6_0 m = internalVerticalVelocity60 m := by
  unfold T.internal_vertical_velocity_6_0 internalVerticalVelocity60 T.internal_vertical_velocity
  rw [sfar m L 78 79 80 88 (by omega) (by omega) (by omega) (by omega) (by omega) (by omega) (by omega)]
  have hb : field m 80 88 < 2 ^ (88 + 1 - 80) := field_lt m 80 88
  have h2 : field m 80 88 <<< 5 < 2147483648 := by rw [Nat.shiftLeft_eq]; omega
  rw [filt3, filt3]
  simp [u32ToI32_of_lt h2]

-- meteo.rs (integer-valued functions) ---------------------------------------------------------
theorem wind_speed_eq (m : Msg) : T.wind_speed m = windSpeed44 m := rfl
theorem wind_direction_eq (m : Msg) : T.wind_direction m = windDirection44 m := rfl
theorem wind_4_4_eq (m : Msg) : T.wind_4_4 m = wind44 m := by
  unfold T.wind_4_4 wind44
  rw [wind_speed_eq, wind_direction_eq]
  cases windSpeed44 m <;> rfl
theorem turbulence_4_4_eq (m : Msg) : T.turbulence_4_4 m = turbulence44 m := rfl
theorem humidity_4_4_eq (m : Msg) : T.humidity_4_4 m = humidity44 m := rfl
theorem pressure_4_4_eq (m : Msg) : T.pressure_4_4 m = pressure44 m := rfl

-- bds.rs ----------------------------------------------------------------------------------------
theorem bds_eq (m : Msg) : T.bds m = bdsCode m := by
  unfold T.bds bdsCode
  by_cases h1 : nib m 8 &&& 0xF = 1 <;> by_cases h2 : nib m 8 &&& 0xF = 2 <;> by_cases h3 : nib m 8 &&& 0xF = 3 <;>
    by_cases h9 : nib m 9 &&& 0xF = 0 <;> by_cases ha : nib m 10 &&& 0x7 = 0 <;> by_cases hb : nib m 11 &&& 0xC = 0 <;>
    simp_all <;> (cases rangeValue m 48 54 <;> simp)

-- bds/bds_1_7.rs, bds_4_0.rs, bds_5_0.rs: the generated record types against the model's ---------------------
def capOfT (c : T.Capability) : Capability :=
  { flags := c.flags, bds20 := c.bds20, bds40 := c.bds40, bds44 := c.bds44, bds50 := c.bds50, bds60 := c.bds60 }
def bds40OfT (v : T.SelectedVerticalIntention) : Bds40 :=
  { mcp := v.mcp_selected_altitude, fms := v.fms_selected_altitude, baro := v.barometric_pressure_setting,
    source := v.target_altitude_source }
def bds50OfT (v : T.TrackAndTurn) : Bds50 :=
  { roll := v.roll_angle, track := v.track_angle, rate := v.track_angle_rate, gs := v.ground_speed, tas := v.true_airspeed }

theorem is_bds_1_7_eq (m : Msg) : (T.is_bds_1_7 m).map capOfT = isBds17 m := by
  unfold T.is_bds_1_7 isBds17 T.Capability.from_data
  cases flagAndRangeValue m 39 61 88 with
  | none => rfl
  | some v =>
    obtain ⟨a, b⟩ := v
    by_cases h : a ≠ 1 ∨ b ≠ 0
    · simp [h]
    · simp only [h, if_false]
      cases rangeValue m 33 56 <;> simp [capOfT]

theorem is_bds_4_0_eq (m : Msg) : (T.is_bds_4_0 m).map bds40OfT = isBds40 m := by
  unfold T.is_bds_4_0 isBds40 T.SelectedVerticalIntention.from_data
  simp only [goodflags_eq, mcp_eq, fms_eq, baro_eq, tas_source_eq]
  generalize goodflags m 33 34 45 = g1
  generalize goodflags m 46 47 58 = g2
  generalize goodflags m 59 60 71 = g3
  generalize goodflags m 33 72 79 = g4
  generalize goodflags m 33 84 85 = g5
  cases g1 <;> cases g2 <;> cases g3 <;> cases g4 <;> cases g5 <;> simp [bds40OfT]

theorem is_bds_5_0_eq (m : Msg) (L : Long m) : (T.is_bds_5_0 m).map bds50OfT = isBds50 m := by
  unfold T.is_bds_5_0 isBds50 T.TrackAndTurn.from_data
  simp only [goodflags_eq, roll_angle_5_0_eq m L, track_angle_5_0_eq, track_angle_rate_5_0_eq m L,
    ground_speed_5_0_eq, true_airspeed_5_0_eq]
  have e1 : ((rollAngle50 m).filter fun x => decide ((-50 : Int) ≤ x ∧ x ≤ (50 : Int)))
      = ((rollAngle50 m).filter fun x => -50 ≤ x ∧ x ≤ 50) := rfl
  have e2 : ((trackAngle50 m).filter fun x => decide (0 ≤ x ∧ x ≤ 360)) = ((trackAngle50 m).filter fun x => x ≤ 360) := by
    congr 1; funext x; simp
  have e3 : ((trackAngleRate50 m).filter fun x => decide ((-16 : Int) ≤ x ∧ x ≤ (16 : Int)))
      = ((trackAngleRate50 m).filter fun x => -16 ≤ x ∧ x ≤ 16) := rfl
  have e4 : ((groundSpeed50 m).filter fun x => decide (0 ≤ x ∧ x ≤ 600)) = ((groundSpeed50 m).filter fun x => x ≤ 600) := by
    congr 1; funext x; simp
  have e5 : ((trueAirspeed50 m).filter fun x => decide (0 ≤ x ∧ x ≤ 500)) = ((trueAirspeed50 m).filter fun x => x ≤ 500) := by
    congr 1; funext x; simp
  rw [e1, e2, e3, e4, e5]
  generalize ((rollAngle50 m).filter fun x => -50 ≤ x ∧ x ≤ 50) = r
  generalize ((trackAngle50 m).filter fun x => x ≤ 360) = t
  generalize ((trackAngleRate50 m).filter fun x => -16 ≤ x ∧ x ≤ 16) = q
  generalize ((groundSpeed50 m).filter fun x => x ≤ 600) = g
  generalize ((trueAirspeed50 m).filter fun x => x ≤ 500) = a
  generalize goodflags m 33 34 43 = g1
  generalize goodflags m 44 45 55 = g2
  generalize goodflags m 56 57 66 = g3
  generalize goodflags m 67 68 77 = g4
  generalize goodflags m 78 79 88 = g5
  cases g1 <;> cases g2 <;> cases g3 <;> cases g4 <;> cases g5 <;> simp [bds50OfT]
  cases r <;> cases t <;> cases q <;> cases g <;> cases a <;> simp
  split <;> simp_all [bds50OfT]

/-! ### `ais` (the frame layer `get_icao`, `get_message` is bridged in `BridgeBits.lean`) -/

theorem ais_eq (m : Msg) : T.ais m = ais m := by
  simp only [T.ais, ais, aisCodes, List.map_cons, List.map_nil, ia5_eq]

end Sq.Bridge
