/-
Closed forms of the Comm-B field extractors (`ehs/*.rs`, `bds.rs::goodflags`) for a 112-bit frame,
in terms of `Spec.field`.
-/
import SqModel.Proofs.Bits
import SqModel.Model.Bds

namespace Sq
open Spec

/-- a long frame's digits -/
structure Long (m : Msg) : Prop where
  nib : AllNib m
  len : m.length = 28

theorem bit_01 (m : Msg) (p : Nat) : field m p p = 0 ∨ field m p p = 1 := by
  have := field_lt m p p
  have e : p + 1 - p = 1 := by omega
  rw [e] at this
  omega

theorem far (m : Msg) (L : Long m) (f sb eb : Nat) (hf : 1 ≤ f) (hf2 : f ≤ 112) (h1 : 1 ≤ sb) (h2 : sb ≤ eb) (h3 : eb ≤ 112) :
    flagAndRangeValue m f sb eb = some (field m f f, field m sb eb) :=
  flagAndRangeValue_eq m L.nib f sb eb hf (by rw [L.len]; omega) h1 h2 (by rw [L.len]; omega)

theorem sfar (m : Msg) (L : Long m) (s f sb eb : Nat) (hs : 1 ≤ s) (hs2 : s ≤ 112) (hf : 1 ≤ f) (hf2 : f ≤ 112)
    (h1 : 1 ≤ sb) (h2 : sb ≤ eb) (h3 : eb ≤ 112) :
    statusFlagAndRangeValue m s f sb eb = some (field m s s, field m f f, field m sb eb) :=
  statusFlagAndRangeValue_eq m L.nib s f sb eb hs (by rw [L.len]; omega) hf (by rw [L.len]; omega) h1 h2 (by rw [L.len]; omega)

theorem filt2 {β : Type} (x : Nat × Nat) (p : Nat × Nat → Bool) (g : Nat × Nat → β) :
    ((some x).filter p).map g = if p x then some (g x) else none := by
  cases h : p x <;> simp [Option.filter, h]

theorem filt3 {β : Type} (x : Nat × Nat × Nat) (p : Nat × Nat × Nat → Bool) (g : Nat × Nat × Nat → β) :
    ((some x).filter p).map g = if p x then some (g x) else none := by
  cases h : p x <;> simp [Option.filter, h]

theorem goodflags_eq (m : Msg) (L : Long m) (f sb eb : Nat) (hf : 1 ≤ f) (hf2 : f ≤ 112) (h1 : 1 ≤ sb) (h2 : sb ≤ eb)
    (h3 : eb ≤ 112) : goodflags m f sb eb = (decide (field m f f = 1) && decide (field m sb eb ≠ 0)) := by
  unfold goodflags
  rw [far m L f sb eb hf hf2 h1 h2 h3]
  simp only
  rcases bit_01 m f with h | h <;> by_cases h0 : field m sb eb = 0 <;> simp [h, h0]

theorem mcp_eq (m : Msg) (L : Long m) :
    mcpSelectedAltitude m = if field m 33 33 = 1 then some (16 * field m 34 45) else none := by
  unfold mcpSelectedAltitude
  rw [far m L 33 34 45 (by omega) (by omega) (by omega) (by omega) (by omega), filt2]
  by_cases h : field m 33 33 = 1 <;> simp [h, Nat.shiftLeft_eq, Nat.mul_comm]

theorem fms_eq (m : Msg) (L : Long m) :
    fmsSelectedAltitude m = if field m 46 46 = 1 then some (16 * field m 47 58) else none := by
  unfold fmsSelectedAltitude
  rw [far m L 46 47 58 (by omega) (by omega) (by omega) (by omega) (by omega), filt2]
  by_cases h : field m 46 46 = 1 <;> simp [h, Nat.shiftLeft_eq, Nat.mul_comm]

theorem baro_eq (m : Msg) (L : Long m) :
    barometricPressureSetting m = some (if field m 59 59 = 1 then field m 60 71 / 10 + 800 else field m 60 71 / 10) := by
  unfold barometricPressureSetting
  rw [far m L 59 60 71 (by omega) (by omega) (by omega) (by omega) (by omega)]
  rfl

theorem tasrc_eq (m : Msg) (L : Long m) :
    targetAltitudeSource m = if field m 86 86 = 1 then some (field m 87 88) else none := by
  unfold targetAltitudeSource
  rw [far m L 86 87 88 (by omega) (by omega) (by omega) (by omega) (by omega), filt2]
  by_cases h : field m 86 86 = 1 <;> simp [h]

theorem roll_eq (m : Msg) (L : Long m) :
    rollAngle50 m = if field m 33 33 = 1 then
        some (if field m 34 34 = 0 then Int.tdiv ((field m 35 43 : Int) * 45) 256 else Int.tdiv ((field m 35 43 : Int) * 45) 256 - 90)
      else none := by
  unfold rollAngle50
  rw [sfar m L 33 34 35 43 (by omega) (by omega) (by omega) (by omega) (by omega) (by omega) (by omega), filt3]
  by_cases h : field m 33 33 = 1 <;> simp [h]

theorem trackAngle_eq (m : Msg) (L : Long m) :
    trackAngle50 m = if field m 44 44 = 1 then
        some (if field m 45 45 = 0 then field m 46 55 * 90 / 512 else field m 46 55 * 90 / 512 + 180)
      else none := by
  unfold trackAngle50
  rw [sfar m L 44 45 46 55 (by omega) (by omega) (by omega) (by omega) (by omega) (by omega) (by omega), filt3]
  by_cases h : field m 44 44 = 1 <;> simp [h, Nat.shiftRight_eq_div_pow]

theorem tar_eq (m : Msg) (L : Long m) :
    trackAngleRate50 m = if field m 67 67 = 1 then
        some (if field m 68 68 = 0 then ((field m 69 77 / 32 : Nat) : Int) else ((field m 69 77 / 32 : Nat) : Int) - 16)
      else none := by
  unfold trackAngleRate50
  rw [sfar m L 67 68 69 77 (by omega) (by omega) (by omega) (by omega) (by omega) (by omega) (by omega), filt3]
  have e : (field m 69 77 <<< 3) >>> 8 = field m 69 77 / 32 := by
    rw [Nat.shiftLeft_eq, Nat.shiftRight_eq_div_pow]; omega
  by_cases h : field m 67 67 = 1 <;> simp [h, e]

theorem gs50_eq (m : Msg) (L : Long m) :
    groundSpeed50 m = if field m 56 56 = 1 then some (2 * field m 57 66) else none := by
  unfold groundSpeed50
  rw [far m L 56 57 66 (by omega) (by omega) (by omega) (by omega) (by omega), filt2]
  by_cases h : field m 56 56 = 1 <;> simp [h, Nat.shiftLeft_eq, Nat.mul_comm]

theorem tas50_eq (m : Msg) (L : Long m) :
    trueAirspeed50 m = if field m 78 78 = 1 then some (2 * field m 79 88) else none := by
  unfold trueAirspeed50
  rw [far m L 78 79 88 (by omega) (by omega) (by omega) (by omega) (by omega), filt2]
  by_cases h : field m 78 78 = 1 <;> simp [h, Nat.shiftLeft_eq, Nat.mul_comm]

theorem hdg60_eq (m : Msg) (L : Long m) :
    magneticHeading60 m = if field m 33 33 = 1 then
        some (if field m 34 34 = 0 then field m 35 44 * 90 / 512 else field m 35 44 * 90 / 512 + 180)
      else none := by
  unfold magneticHeading60
  rw [sfar m L 33 34 35 44 (by omega) (by omega) (by omega) (by omega) (by omega) (by omega) (by omega), filt3]
  by_cases h : field m 33 33 = 1 <;> simp [h, Nat.shiftRight_eq_div_pow]

theorem ias60_eq (m : Msg) (L : Long m) :
    indicatedAirspeed60 m = if field m 45 45 = 1 ∧ field m 46 55 ≠ 0 then some (field m 46 55) else none := by
  unfold indicatedAirspeed60
  rw [far m L 45 46 55 (by omega) (by omega) (by omega) (by omega) (by omega), filt2]
  by_cases h : field m 45 45 = 1 <;> by_cases h2 : field m 46 55 = 0 <;> simp [h, h2]

theorem mach60_eq (m : Msg) (L : Long m) :
    machRaw60 m = if field m 56 56 = 1 ∧ field m 57 66 ≠ 0 then some (field m 57 66) else none := by
  unfold machRaw60
  rw [far m L 56 57 66 (by omega) (by omega) (by omega) (by omega) (by omega), filt2]
  by_cases h : field m 56 56 = 1 <;> by_cases h2 : field m 57 66 = 0 <;> simp [h, h2]

theorem baroRate60_eq (m : Msg) (L : Long m) :
    barometricAltitudeRate60 m = if field m 67 67 = 1 ∧ field m 69 77 ≠ 0 then
        some (if field m 68 68 = 0 then (32 * field m 69 77 : Int) else (32 * field m 69 77 : Int) - 16384)
      else none := by
  unfold barometricAltitudeRate60
  rw [sfar m L 67 68 69 77 (by omega) (by omega) (by omega) (by omega) (by omega) (by omega) (by omega), filt3]
  have e : ((field m 69 77 <<< 5 : Nat) : Int) = 32 * (field m 69 77 : Int) := by
    rw [Nat.shiftLeft_eq]; push_cast; omega
  by_cases h : field m 67 67 = 1 <;> by_cases h2 : field m 69 77 = 0 <;> simp [h, h2, e]

theorem ivv60_eq (m : Msg) (L : Long m) :
    internalVerticalVelocity60 m = if field m 78 78 = 1 ∧ field m 80 88 ≠ 0 then
        some (if field m 79 79 = 0 then (32 * field m 80 88 : Int) else (32 * field m 80 88 : Int) - 16384)
      else none := by
  unfold internalVerticalVelocity60
  rw [sfar m L 78 79 80 88 (by omega) (by omega) (by omega) (by omega) (by omega) (by omega) (by omega), filt3]
  have e : ((field m 80 88 <<< 5 : Nat) : Int) = 32 * (field m 80 88 : Int) := by
    rw [Nat.shiftLeft_eq]; push_cast; omega
  by_cases h : field m 78 78 = 1 <;> by_cases h2 : field m 80 88 = 0 <;> simp [h, h2, e]

end Sq
