/-
Bridge, third part: the translated row-update methods (`Generated/TransPlane.lean`) simulate the hand-written
row model (`Model/Plane.lean`): every model step on a row `p` is the translated step on `planeToT p`.
-/
import SqModel.Generated.TransPlane
import SqModel.Proofs.BridgeRat
import SqModel.Proofs.BridgeCpr
import SqModel.Model.Plane
import SqModel.Model.Render

namespace Sq.Bridge
open Sq Spec

def capToT (c : Capability) : T.Capability :=
  { flags := c.flags, bds20 := c.bds20, bds40 := c.bds40, bds44 := c.bds44, bds50 := c.bds50, bds60 := c.bds60 }

/-- the model's row as the code's `Plane` (arrays as pairs; Mach and temperature in the code's units) -/
def planeToT (p : Plane) : T.Plane :=
  { icao := p.icao, capability := (p.cap0, capToT p.cap1), category := p.category, reg := p.reg, ais := p.ais,
    altitude := p.altitude, altitude_gnss := p.altitudeGnss, altitude_source := p.altitudeSource,
    selected_altitude := p.selectedAltitude, barometric_pressure_setting := p.barometricPressureSetting,
    target_altitude_source := p.targetAltitudeSource, squawk := p.squawk, surveillance_status := p.surveillanceStatus,
    threat_encounter := p.threatEncounter, vrate := p.vrate, vrate_source := p.vrateSource,
    cpr_lat := (p.cprLat0, p.cprLat1), cpr_lon := (p.cprLon0, p.cprLon1), cpr_time := (p.cprTime0, p.cprTime1),
    cpr_surface := (p.cprSurf0, p.cprSurf1), lat := p.lat, lon := p.lon, distance_from_observer := p.distance,
    grspeed := p.grspeed, true_airspeed := p.trueAirspeed, indicated_airspeed := p.indicatedAirspeed,
    mach_number := p.machRaw.map machOfRaw, ground_movement := p.groundMovement, turn := p.turn, track := p.track,
    track_source := p.trackSource, heading := p.heading, heading_source := p.headingSource, roll_angle := p.rollAngle,
    track_angle_rate := p.trackAngleRate, bds_5_0_timestamp := p.bds50Timestamp,
    temperature := p.temperature.map degOfQuarter, wind := p.wind, turbulence := p.turbulence, humidity := p.humidity,
    pressure := p.pressure, timestamp := p.timestamp, position_timestamp := p.positionTimestamp,
    track_timestamp := p.trackTimestamp, heading_timestamp := p.headingTimestamp, last_type_code := p.lastTypeCode,
    last_df := p.lastDf, adsb_version := p.adsbVersion }

/-- the model's environment from the code's: the distance function is the haversine to the configured observer -/
def envOfT (te : TEnv) : Env :=
  { atan2deg := te.atan2deg, dist := te.observer.map fun o => fun la lo => te.haversine la lo o.1 o.2 }

theorem update_from_bcast_sim (p : Plane) (m : Msg) (df : Nat) :
    T.Plane.update_from_bcast (planeToT p) m df = planeToT (p.updateFromBcast m df) := by
  unfold T.Plane.update_from_bcast Plane.updateFromBcast
  simp only [altitude_eq, squawk_eq, get_capability_eq]
  by_cases h1 : df = 4 ∨ df = 20 <;> by_cases h2 : df = 5 ∨ df = 21 <;> by_cases h3 : df = 11 ∨ df = 17 <;>
    simp [h1, h2, h3, planeToT]

theorem update_from_ext_1_4_sim (p : Plane) (m : Msg) (tc st : Nat) :
    T.Plane.update_from_ext_1_4 (planeToT p) m tc st = planeToT (p.updateExt14 m tc st) := by
  simp [T.Plane.update_from_ext_1_4, Plane.updateExt14, planeToT]

theorem update_from_ext_20_22_sim (p : Plane) (m : Msg) :
    T.Plane.update_from_ext_20_22 (planeToT p) m = planeToT (p.updateExt2022 m) := by
  simp [T.Plane.update_from_ext_20_22, Plane.updateExt2022, planeToT, altitude_gnss_eq, surveillance_status_eq]

theorem update_from_ext_31_sim (p : Plane) (m : Msg) :
    T.Plane.update_from_ext_31 (planeToT p) m = planeToT (p.updateExt31 m) := by
  simp [T.Plane.update_from_ext_31, Plane.updateExt31, planeToT, version_eq]

theorem update_from_ext_19_sim (te : TEnv) (p : Plane) (m : Msg) (L : Long m) (st : Nat) :
    T.Plane.update_from_ext_19 te (planeToT p) m st = planeToT (p.updateExt19 (envOfT te) m st) := by
  unfold T.Plane.update_from_ext_19 Plane.updateExt19 velocityOf gnssUpdate gnssFromDelta
  simp only [vertical_rate_eq m L, altitude_delta_eq m L, heading_eq]
  have ea : (planeToT p).altitude = p.altitude := rfl
  by_cases h1 : st = 1 <;> by_cases h2 : st = 2 <;> by_cases h3 : st = 3 <;> by_cases h4 : st = 4 <;>
    cases ha : p.altitude <;> cases hd : altitudeDelta m <;>
    simp_all [planeToT, envOfT, chSub1, chSub2, chSub3]

theorem update_position_sim (te : TEnv) (p : Plane) (mt form : Nat) :
    T.Plane.update_position te (planeToT p) mt form = planeToT (p.updatePosition (envOfT te) mt form) := by
  unfold T.Plane.update_position Plane.updatePosition Plane.posDecode numSeconds durationMs
  simp only [cpr_location_eq]
  unfold cprLocationArr
  have g : ((((Int.tdiv (p.cprTime0 - p.cprTime1) 1000).natAbs : Nat) : Int) < (10 : Int))
      ↔ (Int.tdiv (p.cprTime0 - p.cprTime1) 1000).natAbs < 10 := by omega
  simp only [planeToT, g]
  by_cases hg : p.cprLat0 ≠ 0 ∧ p.cprLat1 ≠ 0 ∧ p.cprLon0 ≠ 0 ∧ p.cprLon1 ≠ 0 ∧ p.cprSurf0 = p.cprSurf1
      ∧ (Int.tdiv (p.cprTime0 - p.cprTime1) 1000).natAbs < 10
  · rw [if_pos hg, if_pos hg]
    generalize (if 5 ≤ mt ∧ mt ≤ 8 then cprLocation p.cprLat0 p.cprLat1 p.cprLon0 p.cprLon1 form 4
      else if 9 ≤ mt ∧ mt ≤ 18 then cprLocation p.cprLat0 p.cprLat1 p.cprLon0 p.cprLon1 form 1 else none) = loc
    cases loc with
    | none => simp
    | some ll =>
      obtain ⟨la, lo⟩ := ll
      by_cases hr : (-90 : Rat) ≤ la ∧ la ≤ 90 ∧ (-180 : Rat) ≤ lo ∧ lo ≤ 180
      · cases ho : te.observer <;> simp [Option.filter, hr, envOfT, ho]
      · simp [Option.filter, hr]
  · rw [if_neg hg, if_neg hg]

/-- the four array stores of `update_cpr` / `amend_cpr` are the model's `setCprSlot` -/
theorem setCprSlot_sim (p : Plane) (tc : Nat) (c : Nat × Nat × Nat) :
    (let s := planeToT p
     let s := { s with cpr_lat := arr2Set s.cpr_lat c.1 c.2.1 }
     let s := { s with cpr_lon := arr2Set s.cpr_lon c.1 c.2.2 }
     let s := { s with cpr_time := arr2Set s.cpr_time c.1 s.timestamp }
     { s with cpr_surface := arr2Set s.cpr_surface c.1 (decide (5 ≤ tc ∧ tc ≤ 8)) })
    = planeToT (p.setCprSlot tc c) := by
  unfold Plane.setCprSlot arr2Set
  by_cases h : c.1 = 0 <;> simp [h, planeToT]

theorem update_cpr_sim (te : TEnv) (p : Plane) (m : Msg) (tc : Nat) :
    T.Plane.update_cpr te (planeToT p) m tc = planeToT (p.storeCpr (envOfT te) tc (cprChecked m)) := by
  unfold T.Plane.update_cpr Plane.storeCpr cprChecked
  simp only [cpr_eq]
  have e : True := trivial
  have e' : ((cpr m).filter fun (x : Nat × Nat × Nat) => match x with | (cpr_form, _, _) => decide (0 ≤ cpr_form ∧ cpr_form ≤ 1))
      = ((cpr m).filter fun c => c.1 ≤ 1) := by
    congr 1; funext x; obtain ⟨a, b, c⟩ := x; simp
  clear e
  rw [e']
  cases (cpr m).filter fun c => decide (c.1 ≤ 1) with
  | none => rfl
  | some c =>
    obtain ⟨f, la, lo⟩ := c
    simp only
    have := setCprSlot_sim p tc (f, la, lo)
    simp only at this
    rw [this, update_position_sim]

theorem update_from_ext_5_8_sim (te : TEnv) (p : Plane) (m : Msg) (tc : Nat) :
    T.Plane.update_from_ext_5_8 te (planeToT p) m tc = planeToT (p.updateExt58 (envOfT te) m tc) := by
  unfold T.Plane.update_from_ext_5_8 Plane.updateExt58
  simp only [ground_movement_eq, ground_track_eq]
  rw [← update_cpr_sim]
  rfl

theorem update_from_ext_9_18_sim (te : TEnv) (p : Plane) (m : Msg) (tc df : Nat) :
    T.Plane.update_from_ext_9_18 te (planeToT p) m tc df = planeToT (p.updateExt918 (envOfT te) m tc df) := by
  unfold T.Plane.update_from_ext_9_18 Plane.updateExt918
  simp only [altitude_eq, surveillance_status_eq]
  rw [← update_cpr_sim]
  rfl

theorem lastTypeCode_sim (p : Plane) (tc : Nat) :
    ({ planeToT p with last_type_code := tc } : T.Plane) = planeToT { p with lastTypeCode := tc } := rfl

theorem updateExtTc_sim (te : TEnv) (p : Plane) (m : Msg) (L : Long m) (df tc st : Nat) :
    (if 1 ≤ tc ∧ tc ≤ 4 then T.Plane.update_from_ext_1_4 (planeToT p) m tc st
     else if 5 ≤ tc ∧ tc ≤ 8 then T.Plane.update_from_ext_5_8 te (planeToT p) m tc
     else if 9 ≤ tc ∧ tc ≤ 18 then T.Plane.update_from_ext_9_18 te (planeToT p) m tc df
     else if tc = 19 then T.Plane.update_from_ext_19 te (planeToT p) m st
     else if 20 ≤ tc ∧ tc ≤ 22 then T.Plane.update_from_ext_20_22 (planeToT p) m
     else if tc = 31 then T.Plane.update_from_ext_31 (planeToT p) m
     else planeToT p) = planeToT (Plane.updateExtTc (envOfT te) p m df tc st) := by
  unfold Plane.updateExtTc
  simp only [update_from_ext_1_4_sim, update_from_ext_5_8_sim, update_from_ext_9_18_sim, update_from_ext_19_sim te _ m L,
    update_from_ext_20_22_sim, update_from_ext_31_sim]
  repeat' split
  all_goals rfl

theorem update_from_ext_sim (te : TEnv) (p : Plane) (m : Msg) (L : Long m) (df : Nat) :
    T.Plane.update_from_ext te (planeToT p) m df = planeToT (p.updateFromExt (envOfT te) m df) := by
  have key := updateExtTc_sim te { p with lastTypeCode := (getMessageType m).1 } m L df (getMessageType m).1 (getMessageType m).2
  unfold T.Plane.update_from_ext Plane.updateFromExt
  rw [get_message_type_eq]
  exact key

-- update_from_mode_s: the generated function is a chain of seven blocks over the state (bds, self); each block is
-- named here (the equation with the generated definition is `rfl`) and simulated by the model's stage separately
def bdsToT (b : Bds40) : T.SelectedVerticalIntention :=
  { mcp_selected_altitude := b.mcp, fms_selected_altitude := b.fms, barometric_pressure_setting := b.baro,
    target_altitude_source := b.source }
def bds50ToT (b : Bds50) : T.TrackAndTurn :=
  { roll_angle := b.roll, track_angle := b.track, track_angle_rate := b.rate, ground_speed := b.gs, true_airspeed := b.tas }

theorem map_inv {α β : Type} (f : α → β) (g : β → α) (h : ∀ x, g (f x) = x) (a : Option α) (b : Option β)
    (e : a.map f = b) : a = b.map g := by
  subst e; cases a <;> simp [h]

theorem is_bds_1_7_toT (m : Msg) : T.is_bds_1_7 m = (isBds17 m).map capToT :=
  map_inv capOfT capToT (fun _ => rfl) _ _ (is_bds_1_7_eq m)
theorem is_bds_4_0_toT (m : Msg) : T.is_bds_4_0 m = (isBds40 m).map bdsToT :=
  map_inv bds40OfT bdsToT (fun _ => rfl) _ _ (is_bds_4_0_eq m)
theorem is_bds_5_0_toT (m : Msg) (L : Long m) : T.is_bds_5_0 m = (isBds50 m).map bds50ToT :=
  map_inv bds50OfT bds50ToT (fun _ => rfl) _ _ (is_bds_5_0_eq m L)

/-- the state of `update_from_mode_s` between two blocks, (bds, self), against the model's (row, still undecided) -/
def StR (t : (Nat × Nat) × T.Plane) (s : Plane × Bool) : Prop :=
  t.2 = planeToT s.1 ∧ (s.2 = true ↔ t.1 = (0, 0))

theorem step1_sim (p : Plane) (m : Msg) (df : Nat) (r : Bool) (b : Nat × Nat) :
    T.Plane.update_from_mode_s.step1 (planeToT p) m df r b
      = planeToT (if b = (2, 0) then { p with ais := Sq.ais m } else p) := by
  unfold T.Plane.update_from_mode_s.step1
  by_cases h : b = (2, 0) <;> simp [h, planeToT]

theorem step2_sim (p : Plane) (m : Msg) (df : Nat) (r : Bool) (b : Nat × Nat) :
    T.Plane.update_from_mode_s.step2 (planeToT p) m df r b
      = planeToT (if b = (3, 0) then { p with threatEncounter := Sq.threatEncounter m } else p) := by
  unfold T.Plane.update_from_mode_s.step2
  by_cases h : b = (3, 0) <;> simp [h, planeToT, threat_encounter_eq]

theorem step3_sim (p : Plane) (u : Bool) (m : Msg) (df : Nat) (r : Bool) (b : Nat × Nat) (hu : u = true ↔ b = (0, 0)) :
    StR (T.Plane.update_from_mode_s.step3 (planeToT p) m df r b) (stage17 m (p, u)) := by
  unfold T.Plane.update_from_mode_s.step3 stage17 StR
  rw [is_bds_1_7_toT]
  by_cases hb : b = (0, 0)
  · have : u = true := hu.mpr hb
    subst this
    cases isBds17 m <;> simp [hb, planeToT]
  · have : u = false := by cases u <;> simp_all
    subst this
    simp [hb, hu]

theorem sourceMark_some (s : Nat) :
    (if s = 1 then Char.ofNat 0x2081 else if s = 2 then Char.ofNat 0x2082 else if s = 3 then Char.ofNat 0x2083 else ' ')
      = sourceMark (some s) := by
  unfold sourceMark
  match s with
  | 0 => rfl
  | 1 => rfl
  | 2 => rfl
  | 3 => rfl
  | (s + 4) => simp [chSub1, chSub2, chSub3]

theorem step4_sim (p : Plane) (u : Bool) (m : Msg) (df : Nat) (r : Bool) (b : Nat × Nat) (hu : u = true ↔ b = (0, 0)) :
    StR (T.Plane.update_from_mode_s.step4 (planeToT p) m df r b) (stage40 m r (p, u)) := by
  unfold T.Plane.update_from_mode_s.step4 stage40 StR
  rw [is_bds_4_0_toT]
  by_cases hb : b = (0, 0)
  · have : u = true := hu.mpr hb
    subst this
    cases h40 : isBds40 m with
    | none => cases r <;> cases hc : p.cap1.bds40 <;> simp [hb, planeToT, capToT, hc]
    | some v =>
      cases r <;> cases hc : p.cap1.bds40 <;> simp [hb, planeToT, capToT, hc, bdsToT]
      all_goals (rcases v.source with _ | s <;> first | rfl | exact sourceMark_some s)
  · have : u = false := by cases u <;> simp_all
    subst this
    simp [hb, hu]

theorem step5_sim (p : Plane) (u : Bool) (m : Msg) (L : Long m) (df : Nat) (r : Bool) (b : Nat × Nat)
    (hu : u = true ↔ b = (0, 0)) :
    StR (T.Plane.update_from_mode_s.step5 (planeToT p) m df r b) (stage50 m r (p, u)) := by
  unfold T.Plane.update_from_mode_s.step5 stage50 StR
  rw [is_bds_5_0_toT m L]
  by_cases hb : b = (0, 0)
  · have : u = true := hu.mpr hb
    subst this
    cases h50 : isBds50 m <;> cases r <;> cases hc : p.cap1.bds50 <;>
      simp [hb, planeToT, capToT, hc, bds50ToT, chSub5]
  · have : u = false := by cases u <;> simp_all
    subst this
    simp [hb, hu]

theorem step6_sim (p : Plane) (u : Bool) (m : Msg) (L : Long m) (df : Nat) (r : Bool) (b : Nat × Nat)
    (hu : u = true ↔ b = (0, 0)) :
    StR (T.Plane.update_from_mode_s.step6 (planeToT p) m df r b) (stage60 m r (p, u)) := by
  unfold T.Plane.update_from_mode_s.step6 stage60 StR
  rw [is_bds_6_0_eq m L]
  by_cases hb : b = (0, 0)
  · have : u = true := hu.mpr hb
    subst this
    cases h60 : isBds60 m with
    | none => cases r <;> cases hc : p.cap1.bds60 <;> simp [hb, planeToT, capToT, hc]
    | some v =>
      cases hbr : v.baroRate <;> cases r <;> cases hc : p.cap1.bds60 <;>
        simp [hb, planeToT, capToT, hc, bds60ToT, chSub6, chSup1, hbr]
  · have : u = false := by cases u <;> simp_all
    subst this
    simp [hb, hu]

theorem step7_sim (p : Plane) (u : Bool) (m : Msg) (L : Long m) (df : Nat) (r : Bool) (b : Nat × Nat)
    (hu : u = true ↔ b = (0, 0)) :
    StR (T.Plane.update_from_mode_s.step7 (planeToT p) m df r b) (stage44 m (p, u)) := by
  unfold T.Plane.update_from_mode_s.step7 stage44 StR
  rw [is_bds_4_4_eq m L]
  by_cases hb : b = (0, 0)
  · have : u = true := hu.mpr hb
    subst this
    cases h44 : isBds44 m with
    | none => simp [hb, planeToT]
    | some v => cases hw : v.wind <;> simp [hb, planeToT, meteoToT, hw]
  · have : u = false := by cases u <;> simp_all
    subst this
    simp [hb, hu]

theorem step8_sim (p : Plane) (u : Bool) (m : Msg) (df : Nat) (r : Bool) (b : Nat × Nat) (hu : u = true ↔ b = (0, 0)) :
    T.Plane.update_from_mode_s.step8 (planeToT p) m df r b = planeToT (stage45 m (p, u)) := by
  unfold T.Plane.update_from_mode_s.step8 stage45
  rw [is_bds_4_5_eq]
  by_cases hb : b = (0, 0)
  · have : u = true := hu.mpr hb
    subst this
    cases h45 : isBds45 m <;> simp [hb, planeToT]
  · have : u = false := by cases u <;> simp_all
    subst this
    simp [hb]

theorem StR_elim {t : (Nat × Nat) × T.Plane} {s : Plane × Bool} (h : StR t s) :
    ∃ b p u, t = (b, planeToT p) ∧ s = (p, u) ∧ (u = true ↔ b = (0, 0)) := by
  obtain ⟨b, tp⟩ := t
  obtain ⟨p, u⟩ := s
  exact ⟨b, p, u, by simp [StR] at h; simp [h.1], rfl, h.2⟩

theorem stageCoded_sim (p : Plane) (m : Msg) (df : Nat) (r : Bool) :
    T.Plane.update_from_mode_s.step2 (T.Plane.update_from_mode_s.step1 (planeToT p) m df r (bdsCode m)) m df r (bdsCode m)
      = planeToT (stageCoded m p).1 ∧ ((stageCoded m p).2 = true ↔ bdsCode m = (0, 0)) := by
  unfold stageCoded
  simp [step1_sim, step2_sim]

theorem update_from_mode_s_sim (p : Plane) (m : Msg) (L : Long m) (df : Nat) (r : Bool) :
    T.Plane.update_from_mode_s (planeToT p) m df r = planeToT (p.updateFromModeS m r) := by
  unfold T.Plane.update_from_mode_s Plane.updateFromModeS
  simp only [bds_eq]
  obtain ⟨ec, hc⟩ := stageCoded_sim p m df r
  rw [ec]
  rcases hsc : stageCoded m p with ⟨p0, u0⟩
  rw [hsc] at hc
  simp only at hc ⊢
  obtain ⟨b3, p3, u3, e3, g3, h3⟩ := StR_elim (step3_sim p0 u0 m df r (bdsCode m) hc)
  rw [e3, g3]
  simp only
  obtain ⟨b4, p4, u4, e4, g4, h4⟩ := StR_elim (step4_sim p3 u3 m df r b3 h3)
  rw [e4, g4]
  simp only
  obtain ⟨b5, p5, u5, e5, g5, h5⟩ := StR_elim (step5_sim p4 u4 m L df r b4 h4)
  rw [e5, g5]
  simp only
  obtain ⟨b6, p6, u6, e6, g6, h6⟩ := StR_elim (step6_sim p5 u5 m L df r b5 h5)
  rw [e6, g6]
  simp only
  obtain ⟨b7, p7, u7, e7, g7, h7⟩ := StR_elim (step7_sim p6 u6 m L df r b6 h6)
  rw [e7, g7]
  simp only
  exact step8_sim p7 u7 m df r b7 h7

theorem stamp_sim (p : Plane) (now : Int) (df : Nat) :
    ({ ({ planeToT p with timestamp := now } : T.Plane) with last_df := df } : T.Plane)
      = planeToT { p with timestamp := now, lastDf := df } := rfl

/-- `Plane::update` (the -U path, and DF20/21 always): the translated method simulates the model's -/
theorem update_sim (te : TEnv) (now : Int) (p : Plane) (m : Msg) (df : Nat) (r : Bool)
    (hL : (df = 17 ∨ df = 18 ∨ df = 20 ∨ df = 21) → Long m) :
    T.Plane.update now te (planeToT p) m df r = planeToT (p.update (envOfT te) now m df r) := by
  have key : T.Plane.update now te (planeToT p) m df r =
      (let s1 := T.Plane.update_from_bcast (planeToT { p with timestamp := now, lastDf := df }) m df
       let s2 := if df = 17 ∨ df = 18 then T.Plane.update_from_ext te s1 m df else s1
       if (r = true ∨ s2.capability.1 > 3) ∧ (df = 20 ∨ df = 21) then T.Plane.update_from_mode_s s2 m df r else s2) := rfl
  rw [key]
  unfold Plane.update commBGate
  simp only [update_from_bcast_sim]
  generalize Plane.updateFromBcast { p with timestamp := now, lastDf := df } m df = p1
  by_cases h17 : df = 17 ∨ df = 18
  · have L : Long m := hL (by omega)
    simp only [h17, if_true, update_from_ext_sim te p1 m L df]
    generalize Plane.updateFromExt (envOfT te) p1 m df = p2
    have hd : ¬ (df = 20 ∨ df = 21) := by omega
    simp [hd]
  · simp only [h17, if_false]
    have hc : (planeToT p1).capability.1 = p1.cap0 := rfl
    by_cases hd : df = 20 ∨ df = 21
    · have L : Long m := hL (by omega)
      by_cases hg : r = true ∨ p1.cap0 > 3
      · rw [if_pos ⟨by rw [hc]; exact hg, hd⟩, update_from_mode_s_sim p1 m L df r]
        rcases hg with h | h <;> rcases hd with d | d <;> simp [h, d]
      · rw [if_neg (by rw [hc]; exact fun h => hg h.1)]
        simp only [not_or] at hg
        rcases hd with d | d <;> simp [hg, d]
    · rw [if_neg (fun h => hd h.2)]
      simp [hd]

theorem new_sim (now : Int) : T.Plane.new now = planeToT (Plane.new now) := rfl

theorem from_message_sim (te : TEnv) (now : Int) (m : Msg) (df icao : Nat) (r : Bool)
    (hL : (df = 17 ∨ df = 18 ∨ df = 20 ∨ df = 21) → Long m) :
    T.Plane.from_message now te m df icao r = planeToT (Plane.fromMessage (envOfT te) now m df icao r) := by
  unfold T.Plane.from_message Plane.fromMessage
  have e : ({ ({ T.Plane.new now with icao := icao } : T.Plane) with reg := (icaoToCountry icao).2 } : T.Plane)
      = planeToT { Plane.new now with icao := icao, reg := (icaoToCountry icao).2 } := rfl
  simp only [e]
  exact update_sim te now _ m df r hL

-- the default path: records built by `DF::from_message`, applied by `update_from_downlink` ---------------------
def srtToT (d : Srt) : T.Srt :=
  { df := d.df, icao := d.icao, squawk := d.squawk, capability := d.capability, altitude := d.altitude }

def extToT (d : Ext) : T.Ext :=
  { df := d.df, icao := d.icao, capability := d.capability, message_type := d.messageType, ais := d.ais,
    category := d.category, cpr := d.cpr, ground_movement := d.groundMovement, grspeed := d.grspeed, track := d.track,
    track_source := d.trackSource, heading := d.heading, heading_source := d.headingSource, altitude := d.altitude,
    altitude_source := d.altitudeSource, altitude_delta := d.altitudeDelta, altitude_gnss := d.altitudeGnss,
    vrate := d.vrate, vrate_source := d.vrateSource, surveillance_status := d.surveillanceStatus,
    adsb_version := d.adsbVersion }

theorem srt_update_sim (m : Msg) : T.Srt.update T.Srt.new m = srtToT (Srt.fromMessage m) := by
  unfold T.Srt.update Srt.fromMessage T.Srt.new
  cases getDownlinkFormat m with
  | none => rfl
  | some df =>
    simp only [altitude_eq, squawk_eq, get_capability_eq]
    by_cases h4 : df = 4 <;> by_cases h5 : df = 5 <;> by_cases h11 : df = 11 <;> simp_all [srtToT]

theorem update_from_downlink_Srt_sim (p : Plane) (d : Srt) :
    T.Plane.update_from_downlink_Srt (planeToT p) (srtToT d) = planeToT (p.amendSrt d) := by
  unfold T.Plane.update_from_downlink_Srt Plane.amendSrt
  have e1 : (srtToT d).icao = d.icao := rfl
  have e2 : (srtToT d).df = d.df := rfl
  have e3 : (srtToT d).altitude = d.altitude := rfl
  have e4 : (srtToT d).squawk = d.squawk := rfl
  have e5 : (srtToT d).capability = d.capability := rfl
  simp only [e1, e2, e3, e4, e5]
  by_cases hi : d.icao.isSome = true
  · simp only [hi, if_true]
    by_cases h4 : d.df = some 4 ∧ d.altitude.isSome = true <;> by_cases h5 : d.df = some 5 ∧ d.squawk.isSome = true <;>
      by_cases h11 : d.df = some 11 <;> cases hc : d.capability <;> simp [h4, h5, h11, planeToT]
  · simp [hi]

theorem update_from_downlink_Mds_sim (p : Plane) (d : T.Mds) :
    T.Plane.update_from_downlink_Mds (planeToT p) d = planeToT { p with icao := d.icao.getD p.icao } := by
  unfold T.Plane.update_from_downlink_Mds
  cases d.icao <;> simp [planeToT]

-- Ext record ------------------------------------------------------------------------------------------
theorem ext_update_sim (te : TEnv) (m : Msg) (L : Long m) :
    T.Ext.update te T.Ext.new m = extToT (Ext.fromMessage (envOfT te) m) := by
  unfold T.Ext.update Ext.fromMessage
  cases getDownlinkFormat m with
  | none => rfl
  | some df =>
    simp only [get_capability_eq, get_message_type_eq]
    have hk : ∀ (e0 : Ext), e0.messageType = getMessageType m →
        (let self := extToT e0
         if 1 ≤ self.message_type.1 ∧ self.message_type.1 ≤ 4 then T.Ext.update_mt_1_4 self m
         else if 5 ≤ self.message_type.1 ∧ self.message_type.1 ≤ 18 then T.Ext.update_mt_5_18 self m df
         else if self.message_type.1 = 19 then T.Ext.update_mt_19 te self m
         else if 20 ≤ self.message_type.1 ∧ self.message_type.1 ≤ 22 then T.Ext.update_mt_20_22 self m
         else if self.message_type.1 = 31 then T.Ext.update_mt_31 self m
         else self)
        = extToT (
          let mt := getMessageType m
          let tc := mt.1
          if 1 ≤ tc ∧ tc ≤ 4 then { e0 with ais := Sq.ais m, category := some mt }
          else if 5 ≤ tc ∧ tc ≤ 18 then
            let e := { e0 with cpr := Sq.cpr m }
            if tc ≤ 8 then
              { e with groundMovement := Sq.groundMovement m, track := Sq.groundTrack m,
                       trackSource := some chSup0, altitudeSource := some chSup0 }
            else
              { e with altitude := Sq.altitude m df, surveillanceStatus := some (Sq.surveillanceStatus m) }
          else if tc = 19 then
            let e := { e0 with vrate := Sq.verticalRate m, altitudeDelta := Sq.altitudeDelta m }
            if mt.2 = 1 then
              let tg := trackAndGroundspeed (envOfT te).atan2deg m false
              { e with track := tg.1, grspeed := tg.2, trackSource := some chSub1 }
            else if mt.2 = 2 then
              let tg := trackAndGroundspeed (envOfT te).atan2deg m true
              { e with track := tg.1, grspeed := tg.2, trackSource := some chSub2 }
            else if mt.2 = 3 ∨ mt.2 = 4 then
              { e with heading := Sq.headingRaw m, headingSource := some chSub3 }
            else e
          else if 20 ≤ tc ∧ tc ≤ 22 then
            { e0 with altitudeGnss := Sq.altitudeGnss m, surveillanceStatus := some (Sq.surveillanceStatus m) }
          else if tc = 31 then { e0 with adsbVersion := Sq.adsbVersion m }
          else e0) := by
      intro e0 hmt
      have em : (extToT e0).message_type = getMessageType m := by simp [extToT, hmt]
      simp only [em]
      generalize getMessageType m = mt at *
      obtain ⟨tc, st⟩ := mt
      simp only
      by_cases h1 : 1 ≤ tc ∧ tc ≤ 4
      · simp [h1, T.Ext.update_mt_1_4, extToT, hmt]
      by_cases h2 : 5 ≤ tc ∧ tc ≤ 18
      · have n1 : ¬ (1 ≤ tc ∧ tc ≤ 4) := h1
        by_cases h8 : tc ≤ 8
        · have : 5 ≤ tc ∧ tc ≤ 8 := ⟨h2.1, h8⟩
          simp [n1, h2, h8, this, T.Ext.update_mt_5_18, extToT, hmt, cpr_eq, ground_movement_eq, ground_track_eq, chSup0]
        · have a : ¬ (5 ≤ tc ∧ tc ≤ 8) := fun h => h8 h.2
          have b : 9 ≤ tc ∧ tc ≤ 18 := ⟨by omega, h2.2⟩
          simp [n1, h2, h8, a, b, T.Ext.update_mt_5_18, extToT, hmt, cpr_eq, altitude_eq, surveillance_status_eq]
      by_cases h3 : tc = 19
      · subst h3
        by_cases s1 : st = 1 <;> by_cases s2 : st = 2 <;> by_cases s3 : st = 3 <;> by_cases s4 : st = 4 <;>
          simp_all [T.Ext.update_mt_19, extToT, vertical_rate_eq m L, altitude_delta_eq m L, heading_eq, envOfT,
            chSub1, chSub2, chSub3]
      by_cases h4 : 20 ≤ tc ∧ tc ≤ 22
      · simp [h1, h2, h3, h4, T.Ext.update_mt_20_22, extToT, altitude_gnss_eq, surveillance_status_eq]
      by_cases h5 : tc = 31
      · subst h5
        simp [T.Ext.update_mt_31, extToT, version_eq]
      · simp [h1, h2, h3, h4, h5]
    exact hk { df := some df, icao := getIcao m df, capability := getCapability m, messageType := getMessageType m } rfl

-- default path, extended squitters ----------------------------------------------------------------------
theorem amend_cpr_sim (te : TEnv) (p : Plane) (d : Ext) :
    T.Plane.amend_cpr te (planeToT p) (extToT d) = planeToT (p.storeCpr (envOfT te) d.messageType.1 d.cpr) := by
  unfold T.Plane.amend_cpr Plane.storeCpr
  have e1 : (extToT d).cpr = d.cpr := rfl
  have e2 : (extToT d).message_type = d.messageType := rfl
  simp only [e1, e2]
  cases d.cpr with
  | none => rfl
  | some c =>
    obtain ⟨f, la, lo⟩ := c
    simp only
    have := setCprSlot_sim p d.messageType.1 (f, la, lo)
    simp only at this
    rw [this, update_position_sim]

theorem amend_from_ext_1_4_sim (p : Plane) (d : Ext) :
    T.Plane.amend_from_ext_1_4 (planeToT p) (extToT d) = planeToT (p.amendExt14 d) := by
  unfold T.Plane.amend_from_ext_1_4 Plane.amendExt14
  have e1 : (extToT d).ais = d.ais := rfl
  have e2 : (extToT d).message_type = d.messageType := rfl
  simp only [e1, e2]
  cases h : d.ais <;> simp [planeToT]

theorem amend_from_ext_5_8_sim (te : TEnv) (p : Plane) (d : Ext) :
    T.Plane.amend_from_ext_5_8 te (planeToT p) (extToT d) = planeToT (p.amendExt58 (envOfT te) d) := by
  unfold T.Plane.amend_from_ext_5_8 Plane.amendExt58
  rw [← amend_cpr_sim]
  rfl

theorem amend_from_ext_9_18_sim (te : TEnv) (p : Plane) (d : Ext) :
    T.Plane.amend_from_ext_9_18 te (planeToT p) (extToT d) = planeToT (p.amendExt918 (envOfT te) d) := by
  unfold T.Plane.amend_from_ext_9_18 Plane.amendExt918
  rw [← amend_cpr_sim]
  rfl

theorem amend_from_ext_19_sim (p : Plane) (d : Ext) :
    T.Plane.amend_from_ext_19 (planeToT p) (extToT d) = planeToT (p.amendExt19 d) := by
  unfold T.Plane.amend_from_ext_19 Plane.amendExt19 gnssUpdate gnssFromDelta
  have e1 : (extToT d).altitude_delta = d.altitudeDelta := rfl
  have e2 : (extToT d).message_type = d.messageType := rfl
  have e3 : (planeToT p).altitude = p.altitude := rfl
  simp only [e1, e2]
  generalize d.messageType.2 = st
  by_cases h1 : st = 1 <;> by_cases h2 : st = 2 <;> by_cases h3 : st = 3 <;> by_cases h4 : st = 4 <;>
    cases ha : p.altitude <;> cases hd : d.altitudeDelta <;>
    simp_all [planeToT, extToT, chSub1, chSub2, chSub3]

theorem amend_from_ext_20_22_sim (p : Plane) (d : Ext) :
    T.Plane.amend_from_ext_20_22 (planeToT p) (extToT d) = planeToT (p.amendExt2022 d) := by
  simp [T.Plane.amend_from_ext_20_22, Plane.amendExt2022, planeToT, extToT]

theorem amend_from_ext_31_sim (p : Plane) (d : Ext) :
    T.Plane.amend_from_ext_31 (planeToT p) (extToT d) = planeToT (p.amendExt31 d) := by
  simp [T.Plane.amend_from_ext_31, Plane.amendExt31, planeToT, extToT]

theorem amendExtTc_sim (te : TEnv) (p : Plane) (d : Ext) :
    (let tc := d.messageType.1
     if 1 ≤ tc ∧ tc ≤ 4 then T.Plane.amend_from_ext_1_4 (planeToT p) (extToT d)
     else if 5 ≤ tc ∧ tc ≤ 8 then T.Plane.amend_from_ext_5_8 te (planeToT p) (extToT d)
     else if 9 ≤ tc ∧ tc ≤ 18 then T.Plane.amend_from_ext_9_18 te (planeToT p) (extToT d)
     else if tc = 19 then T.Plane.amend_from_ext_19 (planeToT p) (extToT d)
     else if 20 ≤ tc ∧ tc ≤ 22 then T.Plane.amend_from_ext_20_22 (planeToT p) (extToT d)
     else if tc = 31 then T.Plane.amend_from_ext_31 (planeToT p) (extToT d)
     else planeToT p) = planeToT (Plane.amendExtTc (envOfT te) p d) := by
  unfold Plane.amendExtTc
  simp only [amend_from_ext_1_4_sim, amend_from_ext_5_8_sim, amend_from_ext_9_18_sim, amend_from_ext_19_sim,
    amend_from_ext_20_22_sim, amend_from_ext_31_sim]
  repeat' split
  all_goals rfl

theorem update_from_downlink_Ext_sim (te : TEnv) (p : Plane) (d : Ext) :
    T.Plane.update_from_downlink_Ext te (planeToT p) (extToT d) = planeToT (p.amendExt (envOfT te) d) := by
  have key := amendExtTc_sim te { p with lastTypeCode := d.messageType.1, cap0 := d.capability } d
  unfold T.Plane.update_from_downlink_Ext Plane.amendExt
  have e1 : (extToT d).icao = d.icao := rfl
  have e2 : (extToT d).message_type = d.messageType := rfl
  have e3 : (extToT d).capability = d.capability := rfl
  simp only [e1, e2, e3]
  by_cases hi : d.icao.isSome = true
  · simp only [hi, if_true]
    exact key
  · simp [hi]

-- the records of `DF::from_message`, `Plane::from_downlink`, `UpdateFromDownlink<DF>` ----------------------------
def srtOfT (d : T.Srt) : Srt :=
  { df := d.df, icao := d.icao, squawk := d.squawk, capability := d.capability, altitude := d.altitude }

def extOfT (d : T.Ext) : Ext :=
  { df := d.df, icao := d.icao, capability := d.capability, messageType := d.message_type, ais := d.ais,
    category := d.category, cpr := d.cpr, groundMovement := d.ground_movement, grspeed := d.grspeed, track := d.track,
    trackSource := d.track_source, heading := d.heading, headingSource := d.heading_source, altitude := d.altitude,
    altitudeSource := d.altitude_source, altitudeDelta := d.altitude_delta, altitudeGnss := d.altitude_gnss,
    vrate := d.vrate, vrateSource := d.vrate_source, surveillanceStatus := d.surveillance_status,
    adsbVersion := d.adsb_version }

theorem srtToT_ofT (d : T.Srt) : srtToT (srtOfT d) = d := rfl
theorem extToT_ofT (d : T.Ext) : extToT (extOfT d) = d := rfl
theorem srtOfT_toT (d : Srt) : srtOfT (srtToT d) = d := rfl
theorem extOfT_toT (d : Ext) : extOfT (extToT d) = d := rfl

/-- of the Comm-B record only the address reaches the table (`from_mds.rs`) -/
def dfOfT : T.DF → DFRec
  | .SRT v => .srt (srtOfT v)
  | .EXT v => .ext (extOfT v)
  | .MDS v => .mds v.icao

theorem srt_from_message_sim (m : Msg) : T.Srt.from_message m = some (srtToT (Srt.fromMessage m)) := by
  unfold T.Srt.from_message
  show some (T.Srt.update T.Srt.new m) = _
  rw [srt_update_sim]

theorem ext_from_message_sim (te : TEnv) (m : Msg) (L : Long m) :
    T.Ext.from_message te m = some (extToT (Ext.fromMessage (envOfT te) m)) := by
  unfold T.Ext.from_message
  show some (T.Ext.update te T.Ext.new m) = _
  rw [ext_update_sim te m L]

-- Mds::update: only the first block writes the address
theorem mds_step0_icao (self : T.Mds) (m : Msg) :
    (T.Mds.update.step0 self m).icao = (match getDownlinkFormat m with | some df => getIcao m df | none => self.icao) := by
  unfold T.Mds.update.step0
  cases getDownlinkFormat m <;> rfl
theorem mds_step2_icao (self : T.Mds) (m : Msg) (b : Nat × Nat) : (T.Mds.update.step2 self m b).icao = self.icao := by
  unfold T.Mds.update.step2; split <;> rfl
theorem mds_step3_icao (self : T.Mds) (m : Msg) (b : Nat × Nat) : (T.Mds.update.step3 self m b).icao = self.icao := by
  unfold T.Mds.update.step3; split <;> rfl
theorem mds_step4_icao (self : T.Mds) (m : Msg) (b : Nat × Nat) : (T.Mds.update.step4 self m b).2.icao = self.icao := by
  unfold T.Mds.update.step4; split
  · cases T.is_bds_1_7 m <;> rfl
  · rfl
theorem mds_step5_icao (self : T.Mds) (m : Msg) (b : Nat × Nat) : (T.Mds.update.step5 self m b).2.icao = self.icao := by
  unfold T.Mds.update.step5; split
  · cases T.is_bds_4_0 m <;> rfl
  · rfl
theorem mds_step6_icao (self : T.Mds) (m : Msg) (b : Nat × Nat) : (T.Mds.update.step6 self m b).2.icao = self.icao := by
  unfold T.Mds.update.step6; split
  · cases T.is_bds_5_0 m <;> rfl
  · rfl
theorem mds_step7_icao (self : T.Mds) (m : Msg) (b : Nat × Nat) : (T.Mds.update.step7 self m b).2.icao = self.icao := by
  unfold T.Mds.update.step7; split
  · cases h : T.is_bds_6_0 m with
    | none => rfl
    | some r => simp only; split <;> rfl
  · rfl
theorem mds_step8_icao (self : T.Mds) (m : Msg) (b : Nat × Nat) : (T.Mds.update.step8 self m b).2.icao = self.icao := by
  unfold T.Mds.update.step8; split
  · cases h : T.is_bds_4_4 m with
    | none => rfl
    | some r => simp only; split <;> rfl
  · rfl
theorem mds_step9_icao (self : T.Mds) (m : Msg) (b : Nat × Nat) : (T.Mds.update.step9 self m b).icao = self.icao := by
  unfold T.Mds.update.step9; split <;> rfl

theorem mds_new_icao : T.Mds.new.icao = none := rfl

theorem mds_update_icao (self : T.Mds) (m : Msg) :
    (T.Mds.update self m).icao = (match getDownlinkFormat m with | some df => getIcao m df | none => self.icao) := by
  unfold T.Mds.update
  simp only [mds_step9_icao, mds_step8_icao, mds_step7_icao, mds_step6_icao, mds_step5_icao, mds_step4_icao,
    mds_step3_icao, mds_step2_icao, mds_step0_icao]

theorem mds_from_message_icao (m : Msg) :
    (T.Mds.from_message m).map (·.icao) = some (match getDownlinkFormat m with | some df => getIcao m df | none => none) := by
  unfold T.Mds.from_message
  simp only [Option.map_some, mds_update_icao]
  rfl

/-- `DF::from_message` builds the model's record (17 needs a 112-bit frame for the casts of the velocity fields) -/
theorem df_from_message_sim (te : TEnv) (m : Msg) (hL : getDownlinkFormat m = some 17 → Long m) :
    (T.DF.from_message te m).map dfOfT = DFRec.fromMessage (envOfT te) m := by
  unfold T.DF.from_message DFRec.fromMessage
  cases hdf : getDownlinkFormat m with
  | none => rfl
  | some v =>
    simp only
    by_cases h1 : v ≤ 16
    · have : 0 ≤ v ∧ v ≤ 16 := ⟨by omega, h1⟩
      simp [this, h1, srt_from_message_sim, dfOfT, srtOfT_toT]
    by_cases h2 : v = 17
    · subst h2
      have L := hL hdf
      simp [ext_from_message_sim te m L, dfOfT, extOfT_toT]
    by_cases h3 : v = 20 ∨ v = 21
    · have n1 : ¬ (0 ≤ v ∧ v ≤ 16) := fun h => h1 h.2
      have hi := mds_from_message_icao m
      rw [hdf] at hi
      cases hm : T.Mds.from_message m with
      | none => rw [hm] at hi; simp at hi
      | some d =>
        rw [hm] at hi
        simp only [Option.map_some, Option.some.injEq] at hi
        simp [n1, h2, h3, h1, dfOfT, hi]
    · have n1 : ¬ (0 ≤ v ∧ v ≤ 16) := fun h => h1 h.2
      simp [n1, h1, h2, h3, dfOfT, srtOfT, T.Srt.new]

/-- `impl UpdateFromDownlink<DF> for Plane` (the default update path) -/
theorem update_from_downlink_DF_sim (now : Int) (te : TEnv) (p : Plane) (d : T.DF) :
    T.Plane.update_from_downlink_DF now te (planeToT p) d = planeToT (p.updateFromDownlink (envOfT te) now (dfOfT d)) := by
  have stamp : ({ planeToT p with timestamp := now } : T.Plane) = planeToT { p with timestamp := now } := rfl
  unfold T.Plane.update_from_downlink_DF Plane.updateFromDownlink
  cases d with
  | SRT v =>
    simp only [dfOfT, stamp]
    rw [← srtToT_ofT v, update_from_downlink_Srt_sim]; rfl
  | EXT v =>
    simp only [dfOfT, stamp]
    rw [← extToT_ofT v, update_from_downlink_Ext_sim]; rfl
  | MDS v =>
    simp only [dfOfT, stamp]
    rw [update_from_downlink_Mds_sim]

/-- `Plane::from_downlink` (every row is created through it) -/
theorem from_downlink_sim (now : Int) (te : TEnv) (d : T.DF) (icao : Nat) :
    T.Plane.from_downlink now te d icao = planeToT (Plane.fromDownlink (envOfT te) now (dfOfT d) icao) := by
  unfold T.Plane.from_downlink Plane.fromDownlink
  have e : ({ ({ T.Plane.new now with icao := icao } : T.Plane) with reg := (icaoToCountry icao).2 } : T.Plane)
      = planeToT { Plane.new now with icao := icao, reg := (icaoToCountry icao).2 } := rfl
  simp only [e]
  exact update_from_downlink_DF_sim now te _ d

-- planes.rs: sort_printed_planes ----------------------------------------------------------------------------
/-- every `-o` letter compares two rows as the model's `sortKey` does ('C', which no property names, for
    categories below 2^20: the code negates an `i32`) -/
theorem sort_key_sim (c : Char) (p q : Plane)
    (hC : c = 'C' → p.category.1 < 1048576 ∧ p.category.2 < 1048576 ∧ q.category.1 < 1048576 ∧ q.category.2 < 1048576) :
    (T.sort_key c).map (fun k => (k.1 (planeToT p) (planeToT q), k.2))
      = (sortKey c).map (fun k => (k.1 p q, k.2)) := by
  unfold T.sort_key sortKey
  by_cases h : c = 'C'
  · obtain ⟨a, b, d, e⟩ := hC h
    subst h
    have b1 : (p.category.1 <<< 1) ||| p.category.2 < 2147483648 := by
      have := @Nat.or_lt_two_pow (p.category.1 <<< 1) p.category.2 22 (by rw [Nat.shiftLeft_eq]; omega) (by omega)
      omega
    have b2 : (q.category.1 <<< 1) ||| q.category.2 < 2147483648 := by
      have := @Nat.or_lt_two_pow (q.category.1 <<< 1) q.category.2 22 (by rw [Nat.shiftLeft_eq]; omega) (by omega)
      omega
    have e1 : (planeToT p).category = p.category := rfl
    have e2 : (planeToT q).category = q.category := rfl
    simp [e1, e2, u32ToI32_of_lt b1, u32ToI32_of_lt b2]
  by_cases h97 : c = 'a'
  · subst h97; simp [planeToT]
  by_cases h65 : c = 'A'
  · subst h65; simp [planeToT]
  by_cases h99 : c = 'c'
  · subst h99; simp [planeToT]
  by_cases h100 : c = 'd'
  · subst h100; simp [planeToT]
  by_cases h68 : c = 'D'
  · subst h68; simp [planeToT]
  by_cases h78 : c = 'N'
  · subst h78; simp [planeToT]
  by_cases h83 : c = 'S'
  · subst h83; simp [planeToT]
  by_cases h87 : c = 'W'
  · subst h87; simp [planeToT]
  by_cases h69 : c = 'E'
  · subst h69; simp [planeToT]
  by_cases h115 : c = 's'
  · subst h115; simp [planeToT]
  by_cases h86 : c = 'V'
  · subst h86; simp [planeToT]
  by_cases h118 : c = 'v'
  · subst h118; simp [planeToT]
  simp [*]

-- constructors that only `impl Default` reaches
theorem capability_new_eq : T.Capability.new = capToT {} := rfl
theorem svi_new_eq : T.SelectedVerticalIntention.new = bdsToT { mcp := none, fms := none, baro := none, source := none } := rfl
theorem tat_new_eq : T.TrackAndTurn.new = bds50ToT { roll := none, track := none, rate := none, gs := none, tas := none } := rfl
theorem has_new_eq : T.HeadingAndSpeed.new = bds60ToT { heading := none, ias := none, mach := none, baroRate := none, ivv := none } := rfl
theorem meteo_new_eq : T.Meteo.new = meteoToT { temp := none, wind := none, humidity := none, turbulence := none, pressure := none } := rfl

end Sq.Bridge
