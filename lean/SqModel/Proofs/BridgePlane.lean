/-
Bridge, third part: the translated row-update methods (`Generated/TransPlane.lean`) simulate the hand-written
row model (`Model/Plane.lean`): every model step on a row `p` is the translated step on `planeToT p`.
-/
import SqModel.Generated.TransPlane
import SqModel.Proofs.BridgeRat
import SqModel.Model.Plane

namespace Sq.Bridge
open Sq Spec

def capToT (c : Capability) : T.Capability :=
  { flags := c.flags, bds20 := c.bds20, bds40 := c.bds40, bds44 := c.bds44, bds50 := c.bds50, bds60 := c.bds60 }

/-- the model's row as the code's `Plane` (arrays as pairs; Mach and temperature in the code's units) -/
def planeToT (p : Plane) : T.Plane :=
  { icao := p.icao, capability := (p.cap0, capToT p.cap1), category := p.category, reg := p.reg, ais := p.ais,
    altitude := p.altitude, altitude_gnss := p.altitudeGnss, altitude_source := p.altitudeSource,
    selected_altitude := p.selectedAltitude, barometric_pressure_setting := p.barometricPressureSetting,
    target_altitude_source := p.targetAltitudeSource, squawk := p.squawk, surveillance_status := p.surveillanceStatus,
    threat_encounter := p.threatEncounter, vrate := p.vrate, vrate_source := p.vrateSource,
    cpr_lat := (p.cprLat0, p.cprLat1), cpr_lon := (p.cprLon0, p.cprLon1), cpr_time := (p.cprTime0, p.cprTime1),
    cpr_surface := (p.cprSurf0, p.cprSurf1), lat := p.lat, lon := p.lon, distance_from_observer := p.distance,
    grspeed := p.grspeed, true_airspeed := p.trueAirspeed, indicated_airspeed := p.indicatedAirspeed,
    mach_number := p.machRaw.map machOfRaw, ground_movement := p.groundMovement, turn := p.turn, track := p.track,
    track_source := p.trackSource, heading := p.heading, heading_source := p.headingSource, roll_angle := p.rollAngle,
    track_angle_rate := p.trackAngleRate, bds_5_0_timestamp := p.bds50Timestamp,
    temperature := p.temperature.map degOfQuarter, wind := p.wind, turbulence := p.turbulence, humidity := p.humidity,
    pressure := p.pressure, timestamp := p.timestamp, position_timestamp := p.positionTimestamp,
    track_timestamp := p.trackTimestamp, heading_timestamp := p.headingTimestamp, last_type_code := p.lastTypeCode,
    last_df := p.lastDf, adsb_version := p.adsbVersion }

/-- the model's environment from the code's: the distance function is the haversine to the configured observer -/
def envOfT (te : TEnv) : Env :=
  { atan2deg := te.atan2deg, dist := te.observer.map fun o => fun la lo => te.haversine la lo o.1 o.2 }

theorem update_from_bcast_sim (p : Plane) (m : Msg) (df : Nat) :
    T.Plane.update_from_bcast (planeToT p) m df = planeToT (p.updateFromBcast m df) := by
  unfold T.Plane.update_from_bcast Plane.updateFromBcast
  simp only [altitude_eq, squawk_eq, get_capability_eq]
  by_cases h1 : df = 4 ∨ df = 20 <;> by_cases h2 : df = 5 ∨ df = 21 <;> by_cases h3 : df = 11 ∨ df = 17 <;>
    simp [h1, h2, h3, planeToT]

end Sq.Bridge
