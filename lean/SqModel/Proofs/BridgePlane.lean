/-
Bridge, third part: the translated row-update methods (`Generated/TransPlane.lean`) simulate the hand-written
row model (`Model/Plane.lean`): every model step on a row `p` is the translated step on `planeToT p`.
-/
import SqModel.Generated.TransPlane
import SqModel.Proofs.BridgeRat
import SqModel.Model.Plane

namespace Sq.Bridge
open Sq Spec

def capToT (c : Capability) : T.Capability :=
  { flags := c.flags, bds20 := c.bds20, bds40 := c.bds40, bds44 := c.bds44, bds50 := c.bds50, bds60 := c.bds60 }

/-- the model's row as the code's `Plane` (arrays as pairs; Mach and temperature in the code's units) -/
def planeToT (p : Plane) : T.Plane :=
  { icao := p.icao, capability := (p.cap0, capToT p.cap1), category := p.category, reg := p.reg, ais := p.ais,
    altitude := p.altitude, altitude_gnss := p.altitudeGnss, altitude_source := p.altitudeSource,
    selected_altitude := p.selectedAltitude, barometric_pressure_setting := p.barometricPressureSetting,
    target_altitude_source := p.targetAltitudeSource, squawk := p.squawk, surveillance_status := p.surveillanceStatus,
    threat_encounter := p.threatEncounter, vrate := p.vrate, vrate_source := p.vrateSource,
    cpr_lat := (p.cprLat0, p.cprLat1), cpr_lon := (p.cprLon0, p.cprLon1), cpr_time := (p.cprTime0, p.cprTime1),
    cpr_surface := (p.cprSurf0, p.cprSurf1), lat := p.lat, lon := p.lon, distance_from_observer := p.distance,
    grspeed := p.grspeed, true_airspeed := p.trueAirspeed, indicated_airspeed := p.indicatedAirspeed,
    mach_number := p.machRaw.map machOfRaw, ground_movement := p.groundMovement, turn := p.turn, track := p.track,
    track_source := p.trackSource, heading := p.heading, heading_source := p.headingSource, roll_angle := p.rollAngle,
    track_angle_rate := p.trackAngleRate, bds_5_0_timestamp := p.bds50Timestamp,
    temperature := p.temperature.map degOfQuarter, wind := p.wind, turbulence := p.turbulence, humidity := p.humidity,
    pressure := p.pressure, timestamp := p.timestamp, position_timestamp := p.positionTimestamp,
    track_timestamp := p.trackTimestamp, heading_timestamp := p.headingTimestamp, last_type_code := p.lastTypeCode,
    last_df := p.lastDf, adsb_version := p.adsbVersion }

/-- the model's environment from the code's: the distance function is the haversine to the configured observer -/
def envOfT (te : TEnv) : Env :=
  { atan2deg := te.atan2deg, dist := te.observer.map fun o => fun la lo => te.haversine la lo o.1 o.2 }

theorem update_from_bcast_sim (p : Plane) (m : Msg) (df : Nat) :
    T.Plane.update_from_bcast (planeToT p) m df = planeToT (p.updateFromBcast m df) := by
  unfold T.Plane.update_from_bcast Plane.updateFromBcast
  simp only [altitude_eq, squawk_eq, get_capability_eq]
  by_cases h1 : df = 4 ∨ df = 20 <;> by_cases h2 : df = 5 ∨ df = 21 <;> by_cases h3 : df = 11 ∨ df = 17 <;>
    simp [h1, h2, h3, planeToT]

theorem update_from_ext_1_4_sim (p : Plane) (m : Msg) (tc st : Nat) :
    T.Plane.update_from_ext_1_4 (planeToT p) m tc st = planeToT (p.updateExt14 m tc st) := by
  simp [T.Plane.update_from_ext_1_4, Plane.updateExt14, planeToT]

theorem update_from_ext_20_22_sim (p : Plane) (m : Msg) :
    T.Plane.update_from_ext_20_22 (planeToT p) m = planeToT (p.updateExt2022 m) := by
  simp [T.Plane.update_from_ext_20_22, Plane.updateExt2022, planeToT, altitude_gnss_eq, surveillance_status_eq]

theorem update_from_ext_31_sim (p : Plane) (m : Msg) :
    T.Plane.update_from_ext_31 (planeToT p) m = planeToT (p.updateExt31 m) := by
  simp [T.Plane.update_from_ext_31, Plane.updateExt31, planeToT, version_eq]

theorem update_from_ext_19_sim (te : TEnv) (p : Plane) (m : Msg) (L : Long m) (st : Nat) :
    T.Plane.update_from_ext_19 te (planeToT p) m st = planeToT (p.updateExt19 (envOfT te) m st) := by
  unfold T.Plane.update_from_ext_19 Plane.updateExt19 velocityOf gnssUpdate gnssFromDelta
  simp only [vertical_rate_eq m L, altitude_delta_eq m L, heading_eq]
  have ea : (planeToT p).altitude = p.altitude := rfl
  by_cases h1 : st = 1 <;> by_cases h2 : st = 2 <;> by_cases h3 : st = 3 <;> by_cases h4 : st = 4 <;>
    cases ha : p.altitude <;> cases hd : altitudeDelta m <;>
    simp_all [planeToT, envOfT, chSub1, chSub2, chSub3]

theorem update_position_sim (te : TEnv) (p : Plane) (mt form : Nat) :
    T.Plane.update_position te (planeToT p) mt form = planeToT (p.updatePosition (envOfT te) mt form) := by
  unfold T.Plane.update_position Plane.updatePosition Plane.posDecode cprLocationArr numSeconds durationMs
  have g : ((((Int.tdiv (p.cprTime0 - p.cprTime1) 1000).natAbs : Nat) : Int) < (10 : Int))
      ↔ (Int.tdiv (p.cprTime0 - p.cprTime1) 1000).natAbs < 10 := by omega
  simp only [planeToT, g]
  by_cases hg : p.cprLat0 ≠ 0 ∧ p.cprLat1 ≠ 0 ∧ p.cprLon0 ≠ 0 ∧ p.cprLon1 ≠ 0 ∧ p.cprSurf0 = p.cprSurf1
      ∧ (Int.tdiv (p.cprTime0 - p.cprTime1) 1000).natAbs < 10
  · rw [if_pos hg, if_pos hg]
    generalize (if 5 ≤ mt ∧ mt ≤ 8 then cprLocation p.cprLat0 p.cprLat1 p.cprLon0 p.cprLon1 form 4
      else if 9 ≤ mt ∧ mt ≤ 18 then cprLocation p.cprLat0 p.cprLat1 p.cprLon0 p.cprLon1 form 1 else none) = loc
    cases loc with
    | none => simp
    | some ll =>
      obtain ⟨la, lo⟩ := ll
      by_cases hr : (-90 : Rat) ≤ la ∧ la ≤ 90 ∧ (-180 : Rat) ≤ lo ∧ lo ≤ 180
      · cases ho : te.observer <;> simp [Option.filter, hr, envOfT, ho]
      · simp [Option.filter, hr]
  · rw [if_neg hg, if_neg hg]

/-- the four array stores of `update_cpr` / `amend_cpr` are the model's `setCprSlot` -/
theorem setCprSlot_sim (p : Plane) (tc : Nat) (c : Nat × Nat × Nat) :
    (let s := planeToT p
     let s := { s with cpr_lat := arr2Set s.cpr_lat c.1 c.2.1 }
     let s := { s with cpr_lon := arr2Set s.cpr_lon c.1 c.2.2 }
     let s := { s with cpr_time := arr2Set s.cpr_time c.1 s.timestamp }
     { s with cpr_surface := arr2Set s.cpr_surface c.1 (decide (5 ≤ tc ∧ tc ≤ 8)) })
    = planeToT (p.setCprSlot tc c) := by
  unfold Plane.setCprSlot arr2Set
  by_cases h : c.1 = 0 <;> simp [h, planeToT]

theorem update_cpr_sim (te : TEnv) (p : Plane) (m : Msg) (tc : Nat) :
    T.Plane.update_cpr te (planeToT p) m tc = planeToT (p.storeCpr (envOfT te) tc (cprChecked m)) := by
  unfold T.Plane.update_cpr Plane.storeCpr cprChecked
  simp only [cpr_eq]
  have e : True := trivial
  have e' : ((cpr m).filter fun (x : Nat × Nat × Nat) => match x with | (cpr_form, _, _) => decide (0 ≤ cpr_form ∧ cpr_form ≤ 1))
      = ((cpr m).filter fun c => c.1 ≤ 1) := by
    congr 1; funext x; obtain ⟨a, b, c⟩ := x; simp
  clear e
  rw [e']
  cases (cpr m).filter fun c => decide (c.1 ≤ 1) with
  | none => rfl
  | some c =>
    obtain ⟨f, la, lo⟩ := c
    simp only
    have := setCprSlot_sim p tc (f, la, lo)
    simp only at this
    rw [this, update_position_sim]

theorem update_from_ext_5_8_sim (te : TEnv) (p : Plane) (m : Msg) (tc : Nat) :
    T.Plane.update_from_ext_5_8 te (planeToT p) m tc = planeToT (p.updateExt58 (envOfT te) m tc) := by
  unfold T.Plane.update_from_ext_5_8 Plane.updateExt58
  simp only [ground_movement_eq, ground_track_eq]
  rw [← update_cpr_sim]
  rfl

theorem update_from_ext_9_18_sim (te : TEnv) (p : Plane) (m : Msg) (tc df : Nat) :
    T.Plane.update_from_ext_9_18 te (planeToT p) m tc df = planeToT (p.updateExt918 (envOfT te) m tc df) := by
  unfold T.Plane.update_from_ext_9_18 Plane.updateExt918
  simp only [altitude_eq, surveillance_status_eq]
  rw [← update_cpr_sim]
  rfl

theorem lastTypeCode_sim (p : Plane) (tc : Nat) :
    ({ planeToT p with last_type_code := tc } : T.Plane) = planeToT { p with lastTypeCode := tc } := rfl

theorem updateExtTc_sim (te : TEnv) (p : Plane) (m : Msg) (L : Long m) (df tc st : Nat) :
    (if 1 ≤ tc ∧ tc ≤ 4 then T.Plane.update_from_ext_1_4 (planeToT p) m tc st
     else if 5 ≤ tc ∧ tc ≤ 8 then T.Plane.update_from_ext_5_8 te (planeToT p) m tc
     else if 9 ≤ tc ∧ tc ≤ 18 then T.Plane.update_from_ext_9_18 te (planeToT p) m tc df
     else if tc = 19 then T.Plane.update_from_ext_19 te (planeToT p) m st
     else if 20 ≤ tc ∧ tc ≤ 22 then T.Plane.update_from_ext_20_22 (planeToT p) m
     else if tc = 31 then T.Plane.update_from_ext_31 (planeToT p) m
     else planeToT p) = planeToT (Plane.updateExtTc (envOfT te) p m df tc st) := by
  unfold Plane.updateExtTc
  simp only [update_from_ext_1_4_sim, update_from_ext_5_8_sim, update_from_ext_9_18_sim, update_from_ext_19_sim te _ m L,
    update_from_ext_20_22_sim, update_from_ext_31_sim]
  repeat' split
  all_goals rfl

theorem update_from_ext_sim (te : TEnv) (p : Plane) (m : Msg) (L : Long m) (df : Nat) :
    T.Plane.update_from_ext te (planeToT p) m df = planeToT (p.updateFromExt (envOfT te) m df) := by
  have key := updateExtTc_sim te { p with lastTypeCode := (getMessageType m).1 } m L df (getMessageType m).1 (getMessageType m).2
  unfold T.Plane.update_from_ext Plane.updateFromExt
  rw [get_message_type_eq]
  exact key

-- update_from_mode_s: the generated function is a chain of seven blocks over the state (bds, self); each block is
-- named here (the equation with the generated definition is `rfl`) and simulated by the model's stage separately
def bdsToT (b : Bds40) : T.SelectedVerticalIntention :=
  { mcp_selected_altitude := b.mcp, fms_selected_altitude := b.fms, barometric_pressure_setting := b.baro,
    target_altitude_source := b.source }
def bds50ToT (b : Bds50) : T.TrackAndTurn :=
  { roll_angle := b.roll, track_angle := b.track, track_angle_rate := b.rate, ground_speed := b.gs, true_airspeed := b.tas }

theorem map_inv {α β : Type} (f : α → β) (g : β → α) (h : ∀ x, g (f x) = x) (a : Option α) (b : Option β)
    (e : a.map f = b) : a = b.map g := by
  subst e; cases a <;> simp [h]

theorem is_bds_1_7_toT (m : Msg) : T.is_bds_1_7 m = (isBds17 m).map capToT :=
  map_inv capOfT capToT (fun _ => rfl) _ _ (is_bds_1_7_eq m)
theorem is_bds_4_0_toT (m : Msg) : T.is_bds_4_0 m = (isBds40 m).map bdsToT :=
  map_inv bds40OfT bdsToT (fun _ => rfl) _ _ (is_bds_4_0_eq m)
theorem is_bds_5_0_toT (m : Msg) (L : Long m) : T.is_bds_5_0 m = (isBds50 m).map bds50ToT :=
  map_inv bds50OfT bds50ToT (fun _ => rfl) _ _ (is_bds_5_0_eq m L)

/-- the state of `update_from_mode_s` between two blocks, (bds, self), against the model's (row, still undecided) -/
def StR (t : (Nat × Nat) × T.Plane) (s : Plane × Bool) : Prop :=
  t.2 = planeToT s.1 ∧ (s.2 = true ↔ t.1 = (0, 0))

theorem step1_sim (p : Plane) (m : Msg) (df : Nat) (r : Bool) (b : Nat × Nat) :
    T.Plane.update_from_mode_s.step1 (planeToT p) m df r b
      = planeToT (if b = (2, 0) then { p with ais := Sq.ais m } else p) := by
  unfold T.Plane.update_from_mode_s.step1
  by_cases h : b = (2, 0) <;> simp [h, planeToT]

theorem step2_sim (p : Plane) (m : Msg) (df : Nat) (r : Bool) (b : Nat × Nat) :
    T.Plane.update_from_mode_s.step2 (planeToT p) m df r b
      = planeToT (if b = (3, 0) then { p with threatEncounter := Sq.threatEncounter m } else p) := by
  unfold T.Plane.update_from_mode_s.step2
  by_cases h : b = (3, 0) <;> simp [h, planeToT, threat_encounter_eq]

theorem step3_sim (p : Plane) (u : Bool) (m : Msg) (df : Nat) (r : Bool) (b : Nat × Nat) (hu : u = true ↔ b = (0, 0)) :
    StR (T.Plane.update_from_mode_s.step3 (planeToT p) m df r b) (stage17 m (p, u)) := by
  unfold T.Plane.update_from_mode_s.step3 stage17 StR
  rw [is_bds_1_7_toT]
  by_cases hb : b = (0, 0)
  · have : u = true := hu.mpr hb
    subst this
    cases isBds17 m <;> simp [hb, planeToT]
  · have : u = false := by cases u <;> simp_all
    subst this
    simp [hb, hu]

theorem sourceMark_some (s : Nat) :
    (if s = 1 then Char.ofNat 0x2081 else if s = 2 then Char.ofNat 0x2082 else if s = 3 then Char.ofNat 0x2083 else ' ')
      = sourceMark (some s) := by
  unfold sourceMark
  match s with
  | 0 => rfl
  | 1 => rfl
  | 2 => rfl
  | 3 => rfl
  | (s + 4) => simp [chSub1, chSub2, chSub3]

theorem step4_sim (p : Plane) (u : Bool) (m : Msg) (df : Nat) (r : Bool) (b : Nat × Nat) (hu : u = true ↔ b = (0, 0)) :
    StR (T.Plane.update_from_mode_s.step4 (planeToT p) m df r b) (stage40 m r (p, u)) := by
  unfold T.Plane.update_from_mode_s.step4 stage40 StR
  rw [is_bds_4_0_toT]
  by_cases hb : b = (0, 0)
  · have : u = true := hu.mpr hb
    subst this
    cases h40 : isBds40 m with
    | none => cases r <;> cases hc : p.cap1.bds40 <;> simp [hb, planeToT, capToT, hc]
    | some v =>
      cases r <;> cases hc : p.cap1.bds40 <;> simp [hb, planeToT, capToT, hc, bdsToT]
      all_goals (rcases v.source with _ | s <;> first | rfl | exact sourceMark_some s)
  · have : u = false := by cases u <;> simp_all
    subst this
    simp [hb, hu]

theorem step5_sim (p : Plane) (u : Bool) (m : Msg) (L : Long m) (df : Nat) (r : Bool) (b : Nat × Nat)
    (hu : u = true ↔ b = (0, 0)) :
    StR (T.Plane.update_from_mode_s.step5 (planeToT p) m df r b) (stage50 m r (p, u)) := by
  unfold T.Plane.update_from_mode_s.step5 stage50 StR
  rw [is_bds_5_0_toT m L]
  by_cases hb : b = (0, 0)
  · have : u = true := hu.mpr hb
    subst this
    cases h50 : isBds50 m <;> cases r <;> cases hc : p.cap1.bds50 <;>
      simp [hb, planeToT, capToT, hc, bds50ToT, chSub5]
  · have : u = false := by cases u <;> simp_all
    subst this
    simp [hb, hu]

theorem step6_sim (p : Plane) (u : Bool) (m : Msg) (L : Long m) (df : Nat) (r : Bool) (b : Nat × Nat)
    (hu : u = true ↔ b = (0, 0)) :
    StR (T.Plane.update_from_mode_s.step6 (planeToT p) m df r b) (stage60 m r (p, u)) := by
  unfold T.Plane.update_from_mode_s.step6 stage60 StR
  rw [is_bds_6_0_eq m L]
  by_cases hb : b = (0, 0)
  · have : u = true := hu.mpr hb
    subst this
    cases h60 : isBds60 m with
    | none => cases r <;> cases hc : p.cap1.bds60 <;> simp [hb, planeToT, capToT, hc]
    | some v =>
      cases hbr : v.baroRate <;> cases r <;> cases hc : p.cap1.bds60 <;>
        simp [hb, planeToT, capToT, hc, bds60ToT, chSub6, chSup1, hbr]
  · have : u = false := by cases u <;> simp_all
    subst this
    simp [hb, hu]

theorem step7_sim (p : Plane) (u : Bool) (m : Msg) (L : Long m) (df : Nat) (r : Bool) (b : Nat × Nat)
    (hu : u = true ↔ b = (0, 0)) :
    StR (T.Plane.update_from_mode_s.step7 (planeToT p) m df r b) (stage44 m (p, u)) := by
  unfold T.Plane.update_from_mode_s.step7 stage44 StR
  rw [is_bds_4_4_eq m L]
  by_cases hb : b = (0, 0)
  · have : u = true := hu.mpr hb
    subst this
    cases h44 : isBds44 m with
    | none => simp [hb, planeToT]
    | some v => cases hw : v.wind <;> simp [hb, planeToT, meteoToT, hw]
  · have : u = false := by cases u <;> simp_all
    subst this
    simp [hb, hu]

theorem step8_sim (p : Plane) (u : Bool) (m : Msg) (df : Nat) (r : Bool) (b : Nat × Nat) (hu : u = true ↔ b = (0, 0)) :
    T.Plane.update_from_mode_s.step8 (planeToT p) m df r b = planeToT (stage45 m (p, u)) := by
  unfold T.Plane.update_from_mode_s.step8 stage45
  rw [is_bds_4_5_eq]
  by_cases hb : b = (0, 0)
  · have : u = true := hu.mpr hb
    subst this
    cases h45 : isBds45 m <;> simp [hb, planeToT]
  · have : u = false := by cases u <;> simp_all
    subst this
    simp [hb]

theorem StR_elim {t : (Nat × Nat) × T.Plane} {s : Plane × Bool} (h : StR t s) :
    ∃ b p u, t = (b, planeToT p) ∧ s = (p, u) ∧ (u = true ↔ b = (0, 0)) := by
  obtain ⟨b, tp⟩ := t
  obtain ⟨p, u⟩ := s
  exact ⟨b, p, u, by simp [StR] at h; simp [h.1], rfl, h.2⟩

theorem stageCoded_sim (p : Plane) (m : Msg) (df : Nat) (r : Bool) :
    T.Plane.update_from_mode_s.step2 (T.Plane.update_from_mode_s.step1 (planeToT p) m df r (bdsCode m)) m df r (bdsCode m)
      = planeToT (stageCoded m p).1 ∧ ((stageCoded m p).2 = true ↔ bdsCode m = (0, 0)) := by
  unfold stageCoded
  simp [step1_sim, step2_sim]

theorem update_from_mode_s_sim (p : Plane) (m : Msg) (L : Long m) (df : Nat) (r : Bool) :
    T.Plane.update_from_mode_s (planeToT p) m df r = planeToT (p.updateFromModeS m r) := by
  unfold T.Plane.update_from_mode_s Plane.updateFromModeS
  simp only [bds_eq]
  obtain ⟨ec, hc⟩ := stageCoded_sim p m df r
  rw [ec]
  rcases hsc : stageCoded m p with ⟨p0, u0⟩
  rw [hsc] at hc
  simp only at hc ⊢
  obtain ⟨b3, p3, u3, e3, g3, h3⟩ := StR_elim (step3_sim p0 u0 m df r (bdsCode m) hc)
  rw [e3, g3]
  simp only
  obtain ⟨b4, p4, u4, e4, g4, h4⟩ := StR_elim (step4_sim p3 u3 m df r b3 h3)
  rw [e4, g4]
  simp only
  obtain ⟨b5, p5, u5, e5, g5, h5⟩ := StR_elim (step5_sim p4 u4 m L df r b4 h4)
  rw [e5, g5]
  simp only
  obtain ⟨b6, p6, u6, e6, g6, h6⟩ := StR_elim (step6_sim p5 u5 m L df r b5 h5)
  rw [e6, g6]
  simp only
  obtain ⟨b7, p7, u7, e7, g7, h7⟩ := StR_elim (step7_sim p6 u6 m L df r b6 h6)
  rw [e7, g7]
  simp only
  exact step8_sim p7 u7 m df r b7 h7

theorem stamp_sim (p : Plane) (now : Int) (df : Nat) :
    ({ ({ planeToT p with timestamp := now } : T.Plane) with last_df := df } : T.Plane)
      = planeToT { p with timestamp := now, lastDf := df } := rfl

/-- `Plane::update` (the -U path, and DF20/21 always): the translated method simulates the model's -/
theorem update_sim (te : TEnv) (now : Int) (p : Plane) (m : Msg) (df : Nat) (r : Bool)
    (hL : (df = 17 ∨ df = 18 ∨ df = 20 ∨ df = 21) → Long m) :
    T.Plane.update now te (planeToT p) m df r = planeToT (p.update (envOfT te) now m df r) := by
  have key : T.Plane.update now te (planeToT p) m df r =
      (let s1 := T.Plane.update_from_bcast (planeToT { p with timestamp := now, lastDf := df }) m df
       let s2 := if df = 17 ∨ df = 18 then T.Plane.update_from_ext te s1 m df else s1
       if (r = true ∨ s2.capability.1 > 3) ∧ (df = 20 ∨ df = 21) then T.Plane.update_from_mode_s s2 m df r else s2) := rfl
  rw [key]
  unfold Plane.update commBGate
  simp only [update_from_bcast_sim]
  generalize Plane.updateFromBcast { p with timestamp := now, lastDf := df } m df = p1
  by_cases h17 : df = 17 ∨ df = 18
  · have L : Long m := hL (by omega)
    simp only [h17, if_true, update_from_ext_sim te p1 m L df]
    generalize Plane.updateFromExt (envOfT te) p1 m df = p2
    have hd : ¬ (df = 20 ∨ df = 21) := by omega
    simp [hd]
  · simp only [h17, if_false]
    have hc : (planeToT p1).capability.1 = p1.cap0 := rfl
    by_cases hd : df = 20 ∨ df = 21
    · have L : Long m := hL (by omega)
      by_cases hg : r = true ∨ p1.cap0 > 3
      · rw [if_pos ⟨by rw [hc]; exact hg, hd⟩, update_from_mode_s_sim p1 m L df r]
        rcases hg with h | h <;> rcases hd with d | d <;> simp [h, d]
      · rw [if_neg (by rw [hc]; exact fun h => hg h.1)]
        simp only [not_or] at hg
        rcases hd with d | d <;> simp [hg, d]
    · rw [if_neg (fun h => hd h.2)]
      simp [hd]

theorem new_sim (now : Int) : T.Plane.new now = planeToT (Plane.new now) := rfl

theorem from_message_sim (te : TEnv) (now : Int) (m : Msg) (df icao : Nat) (r : Bool)
    (hL : (df = 17 ∨ df = 18 ∨ df = 20 ∨ df = 21) → Long m) :
    T.Plane.from_message now te m df icao r = planeToT (Plane.fromMessage (envOfT te) now m df icao r) := by
  unfold T.Plane.from_message Plane.fromMessage
  have e : ({ ({ T.Plane.new now with icao := icao } : T.Plane) with reg := (icaoToCountry icao).2 } : T.Plane)
      = planeToT { Plane.new now with icao := icao, reg := (icaoToCountry icao).2 } := rfl
  simp only [e]
  exact update_sim te now _ m df r hL

end Sq.Bridge
