/-
The nested prefix match of `icao_to_country` is a lookup in a set of pairwise disjoint address
blocks, and that set is the allocation table of `Spec/Annex10.lean`.
-/
import SqModel.Model.Country
import SqModel.Spec.Annex10

namespace Sq
open Spec

abbrev Block := Nat × Nat × Nat     -- (first address, fixed leading bits, code)

def Block.size (b : Block) : Nat := 2 ^ (24 - b.2.1)
def inBlock (a : Nat) (b : Block) : Bool := decide (b.1 ≤ a) && decide (a < b.1 + b.size)

def blockOfArm (shift : Nat) (arm : Nat × Nat) : Block := (arm.1 <<< shift, 24 - shift, arm.2)

def blocksOf (levels : List (Nat × List (Nat × Nat))) : List Block :=
  levels.flatMap fun l => l.2.map (blockOfArm l.1)

def lookupBlocks (a : Nat) (bs : List Block) (dflt : Nat) : Nat :=
  ((bs.find? (inBlock a)).map (·.2.2)).getD dflt

theorem shift_eq_iff (a p s : Nat) : (p == a >>> s) = (decide (p <<< s ≤ a) && decide (a < p <<< s + 2 ^ s)) := by
  rw [Nat.shiftRight_eq_div_pow, Nat.shiftLeft_eq]
  have hp : 0 < 2 ^ s := Nat.pow_pos (by decide)
  by_cases h : p = a / 2 ^ s
  · subst h
    have h1 : a / 2 ^ s * 2 ^ s ≤ a := Nat.div_mul_le_self a (2 ^ s)
    have h2 : a < a / 2 ^ s * 2 ^ s + 2 ^ s := by
      have := Nat.lt_div_mul_add hp (a := a); rw [Nat.mul_comm] at this ⊢; omega
    simp [h1, h2]
  · have : (p == a / 2 ^ s) = false := by simp [h]
    rw [this]
    symm
    rw [Bool.and_eq_false_iff]
    by_cases hle : p * 2 ^ s ≤ a
    · right
      simp only [decide_eq_false_iff_not, Nat.not_lt]
      have h1 : p ≤ a / 2 ^ s := (Nat.le_div_iff_mul_le hp).mpr hle
      have h2 : p + 1 ≤ a / 2 ^ s := by omega
      have := (Nat.le_div_iff_mul_le hp).mp h2
      rw [Nat.add_mul] at this; omega
    · left; simp [hle]

theorem inBlock_arm (a s : Nat) (hs : s ≤ 24) (arm : Nat × Nat) :
    inBlock a (blockOfArm s arm) = (arm.1 == a >>> s) := by
  unfold inBlock blockOfArm Block.size
  simp only
  have : 24 - (24 - s) = s := by omega
  rw [this, shift_eq_iff]

theorem find_arm (a s : Nat) (hs : s ≤ 24) (arms : List (Nat × Nat)) :
    ((arms.map (blockOfArm s)).find? (inBlock a)).map (·.2.2)
      = (arms.find? fun x => x.1 == a >>> s).map (·.2) := by
  induction arms with
  | nil => rfl
  | cons x xs ih =>
    rw [List.map_cons, List.find?_cons, List.find?_cons, inBlock_arm a s hs x]
    cases (x.1 == a >>> s)
    · exact ih
    · rfl

/-- the nested match is the first-match lookup in the list of blocks -/
theorem nestedMatch_eq_lookup (a : Nat) (levels : List (Nat × List (Nat × Nat)))
    (hs : ∀ l ∈ levels, l.1 ≤ 24) :
    nestedMatch a levels = lookupBlocks a (blocksOf levels) Gen.countryDefault := by
  induction levels with
  | nil => rfl
  | cons l ls ih =>
    obtain ⟨s, arms⟩ := l
    have hs0 : s ≤ 24 := hs (s, arms) (by simp)
    have ih' := ih (fun l hl => hs l (by simp [hl]))
    unfold nestedMatch lookupBlocks blocksOf
    simp only [List.flatMap_cons, List.find?_append]
    unfold matchLevel
    rw [← find_arm a s hs0 arms]
    cases h : (arms.map (blockOfArm s)).find? (inBlock a) with
    | some b => simp
    | none =>
      simp only [Option.map_none, Option.none_or]
      rw [ih']; rfl

/-- in a list of pairwise separated blocks an address lies in at most one -/
def Sep (b1 b2 : Block) : Prop := b1.1 + b1.size ≤ b2.1
instance : DecidableRel Sep := fun b1 b2 => by unfold Sep; exact inferInstance

theorem pairwise_mem {R : Block → Block → Prop} {l : List Block} (h : l.Pairwise R) {x y : Block}
    (hx : x ∈ l) (hy : y ∈ l) : x = y ∨ R x y ∨ R y x := by
  induction l with
  | nil => simp at hx
  | cons z zs ih =>
    rw [List.pairwise_cons] at h
    rcases List.mem_cons.mp hx with rfl | hx' <;> rcases List.mem_cons.mp hy with rfl | hy'
    · left; rfl
    · right; left; exact h.1 y hy'
    · right; right; exact h.1 x hx'
    · exact ih h.2 hx' hy'

theorem unique_block {l : List Block} (h : l.Pairwise Sep) {a : Nat} {x y : Block}
    (hx : x ∈ l) (hy : y ∈ l) (hax : inBlock a x = true) (hay : inBlock a y = true) : x = y := by
  rcases pairwise_mem h hx hy with e | r | r
  · exact e
  · unfold Sep at r; unfold inBlock at hax hay; simp at hax hay; omega
  · unfold Sep at r; unfold inBlock at hax hay; simp at hax hay; omega

/-- lookup in a list whose members are pairwise non-overlapping (in any order) -/
theorem lookup_of_mem {l : List Block} (hu : ∀ a x y, x ∈ l → y ∈ l → inBlock a x = true → inBlock a y = true → x = y)
    (a d : Nat) (b : Block) (hb : b ∈ l) (hab : inBlock a b = true) : lookupBlocks a l d = b.2.2 := by
  unfold lookupBlocks
  cases hf : l.find? (inBlock a) with
  | none =>
    have := List.find?_eq_none.mp hf b hb
    simp [hab] at this
  | some c =>
    have hc := List.find?_some hf
    have hm := List.mem_of_find?_eq_some hf
    rw [hu a c b hm hb hc hab]; rfl

theorem lookup_of_not_mem {l : List Block} (a d : Nat) (h : ∀ b ∈ l, inBlock a b = false) :
    lookupBlocks a l d = d := by
  unfold lookupBlocks
  have : l.find? (inBlock a) = none := List.find?_eq_none.mpr (fun b hb => by simp [h b hb])
  rw [this]; rfl

-- facts about the tables, evaluated in the kernel ----------------------------------------------
theorem shifts_ok : ∀ l ∈ Gen.countryLevels, l.1 ≤ 24 := by decide +kernel

/-- the blocks of the source are exactly the blocks of the allocation table (as sets; both lists
    have the same length, so also as multisets) -/
theorem blocks_sub_annex10 : ∀ b ∈ blocksOf Gen.countryLevels, b ∈ annex10 := by decide +kernel
theorem annex10_sub_blocks : ∀ b ∈ annex10, b ∈ blocksOf Gen.countryLevels := by decide +kernel
theorem blocks_length : (blocksOf Gen.countryLevels).length = annex10.length := by decide +kernel

/-- no two blocks of the allocation table overlap, and all lie inside the 24-bit address space -/
theorem annex10_separated : annex10.Pairwise Sep := by decide +kernel
theorem annex10_in_range : ∀ b ∈ annex10, b.1 + Block.size b ≤ 2 ^ 24 ∧ b.2.1 ≤ 24 := by decide +kernel
theorem default_is_unallocated : Gen.countryDefault = unallocated := by decide +kernel

theorem mem_blocks_iff (b : Block) : b ∈ blocksOf Gen.countryLevels ↔ b ∈ annex10 :=
  ⟨blocks_sub_annex10 b, annex10_sub_blocks b⟩

end Sq
