/-
Bridge for `src/decoder/adsb/position.rs`: the translated `pmod`, `fixed_lat`, `signed_lon`, `nl`, `cpr_location`
(`Generated/Trans.lean`, f64 as exact rationals) are the hand-written model of `Model/Cpr.lean`, on which the theorems of
C08 are stated.
-/
import SqModel.Proofs.BridgeRat
import SqModel.Proofs.RatPrim

namespace Sq.Bridge
open Sq

theorem pmod_eq (x y : Int) : T.pmod x y = pmod x y := by
  unfold T.pmod pmod
  simp only []

theorem fixed_lat_eq (lat : Rat) : T.fixed_lat lat = fixedLat lat := rfl
theorem signed_lon_eq (lon : Rat) : T.signed_lon lon = signedLon lon := rfl

/-- the table inside `nl` is the table the extractor reads (`Generated/NlTable.lean`), scaled by 10^8 -/
theorem nl_boundaries_eq :
    T.nl.boundaries = Gen.nlBoundaries.map (fun b => ((b.1 : Rat) / 100000000, (b.2 : Int))) := by
  simp only [T.nl.boundaries, Gen.nlBoundaries, List.map]
  norm_num

theorem nl_eq (lat : Rat) : T.nl lat = nlOf lat := by
  unfold T.nl nlOf ratAbs
  simp only [nl_boundaries_eq, List.find?_map]
  cases h : List.find? ((fun x => decide ((if lat < 0 then -lat else lat) < x.1)) ∘ fun b : Nat × Nat => ((b.1 : Rat) / 100000000, (b.2 : Int)))
      Gen.nlBoundaries with
  | none =>
    have h' : List.find? (fun b : Nat × Nat => decide ((if lat < 0 then -lat else lat) < (b.1 : Rat) / 100000000)) Gen.nlBoundaries = none := h
    simp [h', Gen.nlDefault]
  | some b =>
    have h' : List.find? (fun b : Nat × Nat => decide ((if lat < 0 then -lat else lat) < (b.1 : Rat) / 100000000)) Gen.nlBoundaries = some b := h
    simp [h']

theorem div_const : ((((1 <<< 17) : Nat) : Rat)) = 131072 := by
  have : (1 <<< 17 : Nat) = 131072 := by decide
  rw [this]; norm_num

/-- **`cpr_location` as translated is the model's `cprLocation`** (for every argument: both take the saturating `as i32`,
    the truncating `%` of `f64` on the whole number `j`, and index `rlat` by `cpr_form`) -/
theorem cpr_location_eq (lat lon : Nat × Nat) (form : Nat) (coeff : Int) :
    T.cpr_location lat lon form coeff = cprLocationArr lat lon form coeff := by
  unfold T.cpr_location cprLocationArr cprLocation cprRlat
  simp only [div_const, ratFloor_half, ratFmod_60, ratFmod_59, fixed_lat_eq, signed_lon_eq, nl_eq, pmod_eq, arr2Get]
  by_cases hz : nlOf (fixedLat (6 * (((fmodInt (floorHalf ((59 * (lat.1 : Rat) - 60 * (lat.2 : Rat)) / 131072)) 60 : Int) : Rat) + (lat.1 : Rat) / 131072)))
      = nlOf (fixedLat (360 / 59 * (((fmodInt (floorHalf ((59 * (lat.1 : Rat) - 60 * (lat.2 : Rat)) / 131072)) 59 : Int) : Rat) + (lat.2 : Rat) / 131072)))
  · by_cases hf : form = 1
    · simp [hz, hf]
    · simp [hz, hf]
  · simp [hz]

end Sq.Bridge
