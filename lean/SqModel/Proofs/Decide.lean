/-
Exhaustive kernel evaluation over a whole bit field: `allLt p lo k` checks `p` on
`lo .. lo + 2^k - 1` by binary splitting, so that `decide +kernel` neither overflows the
kernel's recursion depth nor needs an axiom.
-/
namespace Sq

def allLt (p : Nat → Bool) : Nat → Nat → Bool
  | lo, 0 => p lo
  | lo, k + 1 => allLt p lo k && allLt p (lo + 2 ^ k) k

theorem allLt_spec (p : Nat → Bool) : ∀ k lo, allLt p lo k = true →
    ∀ i, lo ≤ i → i < lo + 2 ^ k → p i = true := by
  intro k
  induction k with
  | zero =>
    intro lo h i h1 h2
    have : i = lo := by simp at h2; omega
    subst this; simpa [allLt] using h
  | succ k ih =>
    intro lo h i h1 h2
    simp only [allLt, Bool.and_eq_true] at h
    rw [Nat.pow_succ] at h2
    by_cases hi : i < lo + 2 ^ k
    · exact ih lo h.1 i h1 hi
    · exact ih (lo + 2 ^ k) h.2 i (by omega) (by omega)

theorem allLt_zero (p : Nat → Bool) (k : Nat) (h : allLt p 0 k = true) (i : Nat) (hi : i < 2 ^ k) :
    p i = true :=
  allLt_spec p k 0 h i (Nat.zero_le _) (by omega)

end Sq
