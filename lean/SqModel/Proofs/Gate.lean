/-
The acceptance gate of `get_message` and the address of `get_icao` in terms of the specification.
-/
import SqModel.Proofs.Parity

namespace Sq
open Spec

theorem getDownlinkFormat_eq (m : Msg) (h : AllNib m) (hl : 2 ≤ m.length) :
    getDownlinkFormat m = some (Spec.df m) := by
  unfold getDownlinkFormat Spec.df
  exact rangeValue_eq_field m h 1 5 (by omega) (by omega) (by omega)

theorem lengthMatchesDF_eq (m : Msg) (h : AllNib m) (hl : 2 ≤ m.length) :
    lengthMatchesDF m = Spec.lengthMatchesDF m := by
  unfold lengthMatchesDF Spec.lengthMatchesDF
  rw [getDownlinkFormat_eq m h hl]
  simp only
  by_cases hd : Spec.df m ≤ 15
  · have : ¬ 16 ≤ Spec.df m := by omega
    have h2 : Spec.df m < 16 := by omega
    simp [hd, this, h2]
  · have : 16 ≤ Spec.df m := by omega
    have h2 : ¬ Spec.df m < 16 := by omega
    simp [hd, this, h2]

/-- a vector that passed the length/DF gate -/
structure Gated (m : Msg) : Prop where
  nib : AllNib m
  len : (Spec.df m < 16 ∧ m.length = 14) ∨ (16 ≤ Spec.df m ∧ m.length = 28)

theorem gated_of_lengthMatches (m : Msg) (h : AllNib m) (hl : m.length = 14 ∨ m.length = 28)
    (hg : Spec.lengthMatchesDF m = true) : Gated m := by
  refine ⟨h, ?_⟩
  unfold Spec.lengthMatchesDF at hg
  simp only [Bool.or_eq_true, Bool.and_eq_true, decide_eq_true_eq, beq_iff_eq] at hg
  exact hg

theorem getCrc_eq (m : Msg) (g : Gated m) :
    getCrc m (Spec.df m) = (crc24 (bitsOf m 1 (4 * m.length - 24))).toNat := by
  unfold getCrc
  rcases g.len with ⟨hd, hl⟩ | ⟨hd, hl⟩
  · have : Spec.df m ≤ 15 := by omega
    rw [if_pos this, crc56_eq_spec m g.nib (by omega), hl]
  · have : ¬ Spec.df m ≤ 15 := by omega
    rw [if_neg this, crc112_eq_spec m g.nib (by omega), hl]

/-- the remainder of the whole frame, as computed by the closure of `parity_ok` / by `get_icao` -/
theorem syndromeOf_eq (m : Msg) (g : Gated m) :
    syndromeOf m (Spec.df m) = some (syndrome (bitsOf m 1 (4 * m.length))).toNat := by
  unfold syndromeOf
  have hlen : 24 ≤ 4 * m.length := by rcases g.len with ⟨_, hl⟩ | ⟨_, hl⟩ <;> omega
  simp only [Nat.mul_comm m.length 4]
  rw [rangeValue_eq_field m g.nib _ _ (by omega) (by omega) (by omega)]
  simp only [Option.map_some]
  rw [getCrc_eq m g, syndrome_frame m (4 * m.length) rfl hlen]
  congr 1
  rw [BitVec.toNat_xor, BitVec.toNat_ofNat, Nat.xor_comm]
  congr 1
  have := field_lt m (4 * m.length - 23) (4 * m.length)
  have e : 4 * m.length + 1 - (4 * m.length - 23) = 24 := by omega
  rw [e] at this
  exact (Nat.mod_eq_of_lt this).symm

theorem parityOk_eq (m : Msg) (g : Gated m) : parityOk m = Spec.parityOK m := by
  have hl2 : 2 ≤ m.length := by rcases g.len with ⟨_, hl⟩ | ⟨_, hl⟩ <;> omega
  unfold parityOk Spec.parityOK
  rw [getDownlinkFormat_eq m g.nib hl2]
  have hs := syndromeOf_eq m g
  generalize hd : Spec.df m = d at *
  by_cases h17 : d = 17
  · subst h17; simp [hs]
  · by_cases h18 : d = 18
    · subst h18; simp [hs]
    · by_cases h11 : d = 11
      · subst h11; simp [hs]
      · have : ¬ (d = 17 ∨ d = 18) := by omega
        simp only [this, if_false, h11]
        split <;> simp_all

/-- C03: the address `get_icao` attributes a gate-passing frame of one of the nine formats to -/
theorem getIcao_eq (m : Msg) (g : Gated m)
    (hf : Spec.df m ∈ [0, 4, 5, 11, 16, 17, 18, 20, 21]) :
    getIcao m (Spec.df m) = Spec.addressOf m := by
  have hs := syndromeOf_eq m g
  unfold getIcao Spec.addressOf
  generalize hd : Spec.df m = d at *
  simp only
  have hlen : 32 ≤ 4 * m.length := by rcases g.len with ⟨_, hl⟩ | ⟨_, hl⟩ <;> omega
  by_cases hAP : d = 0 ∨ d = 4 ∨ d = 5 ∨ d = 16 ∨ d = 20 ∨ d = 21
  · have hAA : ¬ (d = 11 ∨ d = 17 ∨ d = 18) := by omega
    rw [if_pos hAP, if_neg hAA, if_pos hAP]
    unfold syndromeOf at hs
    rw [hs]
    simp only [Option.filter_some]
    have hx : (syndrome (bitsOf m 1 (4 * m.length))).toNat
        = field m (4 * m.length - 23) (4 * m.length) ^^^ (crc24 (bitsOf m 1 (4 * m.length - 24))).toNat := by
      rw [syndrome_frame m (4 * m.length) rfl (by omega), BitVec.toNat_xor, BitVec.toNat_ofNat, Nat.xor_comm]
      congr 1
      have := field_lt m (4 * m.length - 23) (4 * m.length)
      have e : 4 * m.length + 1 - (4 * m.length - 23) = 24 := by omega
      rw [e] at this
      exact Nat.mod_eq_of_lt this
    rw [hx]
    simp
  · have hAA : d = 11 ∨ d = 17 ∨ d = 18 := by
      simp only [List.mem_cons, List.not_mem_nil, or_false] at hf
      omega
    rw [if_neg hAP, if_pos hAA, rangeValue_eq_field m g.nib 9 32 (by omega) (by omega) (by omega)]
    congr 1
    funext f
    by_cases hz : f = 0 <;> simp [hz]

end Sq
