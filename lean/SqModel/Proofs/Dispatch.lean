/-
The dispatching `match`es of the code, regenerated from the source on every run
(`Generated/Dispatch.lean`), are the ones the hand-written model transliterates.  If a type-code range,
a downlink-format arm, the pairing guard or a guard of `Plane::update` changes in the source, one of these
`decide`s fails: the obligation is broken and the check searches for an input on which a property fails.
-/
import SqModel.Generated.Dispatch
import SqModel.Model.Plane

namespace Sq.Dispatch

/-- default path (`UpdateFromDownlink<Ext>`): the arms `Plane.amendExtTc` models -/
theorem arms_default : Gen.armsExtDefault =
    [("1..=4", "amend_from_ext_1_4"), ("5..=8", "amend_from_ext_5_8"), ("9..=18", "amend_from_ext_9_18"),
     ("19", "amend_from_ext_19"), ("20..=22", "amend_from_ext_20_22"), ("31", "amend_from_ext_31"), ("_", "")] := by decide

/-- -U path (`update_from_ext`): the arms `Plane.updateExtTc` models -/
theorem arms_update : Gen.armsExtUpdate =
    [("1..=4", "update_from_ext_1_4"), ("5..=8", "update_from_ext_5_8"), ("9..=18", "update_from_ext_9_18"),
     ("19", "update_from_ext_19"), ("20..=22", "update_from_ext_20_22"), ("31", "update_from_ext_31"), ("_", "")] := by decide

/-- the two paths dispatch on the same type-code classes -/
theorem same_classes : Gen.armsExtDefault.map Prod.fst = Gen.armsExtUpdate.map Prod.fst := by decide

/-- `DF::from_message`: what `fromMessage` models -/
theorem arms_df : Gen.armsDf = [("0..=16", "DF::SRT"), ("17", "DF::EXT"), ("20 | 21", "DF::MDS"), ("_", "DF::SRT")] := by decide

/-- `Ext::update`: what `Ext.fromMessage` models -/
theorem arms_ext_decode : Gen.armsExtDecode =
    [("1..=4", "update_mt_1_4"), ("5..=18", "update_mt_5_18"), ("19", "update_mt_19"), ("20..=22", "update_mt_20_22"),
     ("31", "update_mt_31"), ("_", "")] := by decide

/-- `update_position`: what `Plane.posDecode` models -/
theorem position_guard_shape :
    Gen.armsPosition = [("5..=8", "decoder::cpr_location"), ("9..=18", "decoder::cpr_location"), ("_", "")]
    ∧ Gen.positionCoeffs = [4, 1] ∧ Gen.pairWindowSeconds = 10 ∧ Gen.positionRange = [90, 90, 180, 180]
    ∧ Gen.pairingGuard = "self.cpr_lat[0] != 0 && self.cpr_lat[1] != 0 && self.cpr_lon[0] != 0 && self.cpr_lon[1] != 0 && self.cpr_surface[0] == self.cpr_surface[1] && self.cpr_time[0].signed_duration_since(self.cpr_time[1]).num_seconds().abs() < 10" := by
  refine ⟨by decide, by decide, by decide, by decide, by decide +kernel⟩

/-- `Plane::update`: what `Plane.update` / `commBGate` model -/
theorem update_guards :
    Gen.updateExtGuard = "df == 17 || df == 18"
    ∧ Gen.updateCommBGuard = "(relaxed || (self.capability.0 > 3)) && (df == 20 || df == 21)" := by decide

end Sq.Dispatch
