/-
The altitude decoder against the Mode S altitude-code specification, by complete enumeration of
the 13-bit (DF4/DF20) and 12-bit (TC 9-18) fields in the kernel.
-/
import SqModel.Proofs.Fields
import SqModel.Spec.Altitude

namespace Sq
open Spec

/-- the whole of `altitude(message, df)` for df ≠ 17 as a function of the working code -/
def altOfMaCode (code : Nat) : Option Nat :=
  (if code &&& 0b10 = 0 then
      if code &&& 1 = 0 then
        let hl := graytobinOfCode code
        if 1200 ≤ hl.1 * 500 + hl.2 * 100 then some (hl.1 * 500 + hl.2 * 100 - 1200) else none
      else altQ1 code
    else altMetric code).bind fun a => if a < 100000 then some a else none

theorem altitude_eq_altOfMaCode (m : Msg) (df : Nat) (h : df ≠ 17) :
    altitude m df = altOfMaCode (maCode m) := by
  unfold altitude altOfMaCode altitudeValue altGillham graytobin
  simp only [h, if_false]

/-- the 13-bit field value `c` as the working code -/
def maOfField (c : Nat) : Nat := ma4 (c / 4096) (c / 256 % 16) (c / 16 % 16) (c % 16)

theorem maCode_eq_maOfField (m : Msg) (h : AllNib m) (hl : 8 ≤ m.length) :
    maCode m = maOfField (field m 20 32) := by
  rw [maCode_eq_ma4, ma4_low, field_20_32 m h hl]
  have := nib_lt m h 5; have := nib_lt m h 6; have := nib_lt m h 7
  have h4 : nib m 4 % 2 < 2 := Nat.mod_lt _ (by decide)
  unfold maOfField
  congr <;> omega

/-- DF4/DF20, all 8192 codes: where C05 constrains the value (M = 0) and the code is Q = 1 or all
    zeros, the decoder is the specification -/
theorem alt13_table : allLt (fun c =>
    if mBit c = 0 ∧ ((acBits12 (ac12of13 c)).q = 1 ∨ c = 0) then altOfMaCode (maOfField c) == altSpec13 c
    else true) 0 13 = true := by
  decide +kernel

theorem altOfMaCode_eq_spec (c : Nat) (hc : c < 8192) (hM : mBit c = 0)
    (hQ : (acBits12 (ac12of13 c)).q = 1 ∨ c = 0) : altOfMaCode (maOfField c) = altSpec13 c := by
  have := allLt_zero _ 13 alt13_table c (by simpa using hc)
  simp only [hM, hQ, and_self, if_true, beq_iff_eq] at this
  exact this

/-- the Q = 0 branch does not implement the Gillham code: a legal code for 200 ft decodes to nothing
    (this very code is pinned by the repository's `test_alt_e`) -/
theorem alt13_gillham_counterexample :
    altOfMaCode (maOfField 0x100A) = none ∧ altSpec13 0x100A = some 200 := by decide +kernel

-- airborne position squitter ---------------------------------------------------------------
/-- bits 41..52 through digits 10..12 -/
theorem field_41_52 (m : Msg) (h : AllNib m) (hl : 13 ≤ m.length) :
    field m 41 52 = nib m 10 * 256 + nib m 11 * 16 + nib m 12 := by
  rw [field_via_take m h 41 52 (by omega) (by omega)]
  simp only [show (52 - 1) / 4 + 1 = 13 by decide, show 3 - (52 - 1) % 4 = 0 by decide,
    show 52 + 1 - 41 = 12 by decide]
  rw [natOf_take_succ m 12 (by omega), natOf_take_succ m 11 (by omega), natOf_take_succ m 10 (by omega)]
  have := nib_lt m h 10; have := nib_lt m h 11; have := nib_lt m h 12
  generalize natOf (m.take 10) = T
  simp
  omega

/-- `me_code` as a function of the 12-bit field -/
def meOfField (f : Nat) : Nat := ((f <<< 2) ||| ((f / 16) % 2)) % 65536

theorem meCode_eq (m : Msg) (h : AllNib m) (hl : 13 ≤ m.length) :
    meCode m = some (meOfField (field m 41 52)) := by
  unfold meCode flagAndRangeValue
  rw [rangeValue_eq_field m h 41 52 (by omega) (by omega) (by omega)]
  simp only [Option.map_some]
  congr 1
  unfold meOfField
  congr 2
  unfold flagBit
  simp only [bitLocation_eq]
  rw [field_41_52 m h hl]
  have := nib_lt m h 11; have := nib_lt m h 12
  simp [Nat.and_one_is_mod]
  omega

/-- TC 9-18, all 4096 codes with Q = 1 -/
theorem alt12_table : allLt (fun f =>
    if (acBits12 f).q = 1 then ((altQ1 (meOfField f)).bind fun a => if a < 100000 then some a else none) == altSpec12 f
       && (meOfField f &&& 0b10 == 0) && (meOfField f &&& 1 == 1)
    else true) 0 12 = true := by
  decide +kernel

end Sq
