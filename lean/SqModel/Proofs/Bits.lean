/-
`range_value` computes the field it is named after:
`rangeValue m sb eb = some (Spec.field m sb eb)` for every nibble vector, every `1 ≤ sb ≤ eb ≤ 4·|m|`.
-/
import SqModel.Spec.Bits

namespace Sq
open Spec

theorem natOf_foldl (l : List Nat) (a : Nat) :
    l.foldl (fun a x => a * 16 + x) a = a * 16 ^ l.length + natOf l := by
  induction l generalizing a with
  | nil => simp [natOf]
  | cons x xs ih =>
    simp only [List.foldl_cons, List.length_cons, natOf]
    rw [ih, ih (0 * 16 + x)]
    simp [Nat.pow_succ]
    grind

theorem natOf_append (a b : List Nat) : natOf (a ++ b) = natOf a * 16 ^ b.length + natOf b := by
  unfold natOf
  rw [List.foldl_append, natOf_foldl]
  rfl

theorem natOf_nil : natOf [] = 0 := rfl
theorem natOf_singleton (x : Nat) : natOf [x] = x := by simp [natOf]

theorem allNib_take {m : List Nat} (h : AllNib m) (k : Nat) : AllNib (m.take k) :=
  fun x hx => h x (List.mem_of_mem_take hx)
theorem allNib_drop {m : List Nat} (h : AllNib m) (k : Nat) : AllNib (m.drop k) :=
  fun x hx => h x (List.mem_of_mem_drop hx)

theorem natOf_cons (x : Nat) (xs : List Nat) : natOf (x :: xs) = x * 16 ^ xs.length + natOf xs := by
  have := natOf_append [x] xs
  simpa [natOf_singleton] using this

theorem natOf_lt (l : List Nat) (h : AllNib l) : natOf l < 16 ^ l.length := by
  induction l with
  | nil => simp [natOf]
  | cons x xs ih =>
    rw [natOf_cons]
    have hx : x < 16 := h x (by simp)
    have := ih (fun y hy => h y (by simp [hy]))
    simp only [List.length_cons, Nat.pow_succ]
    have hp : 0 < 16 ^ xs.length := Nat.pow_pos (by decide)
    calc x * 16 ^ xs.length + natOf xs < x * 16 ^ xs.length + 16 ^ xs.length := by omega
      _ = (x + 1) * 16 ^ xs.length := by grind
      _ ≤ 16 * 16 ^ xs.length := Nat.mul_le_mul_right _ (by omega)
      _ = 16 ^ xs.length * 16 := by grind

/-- the number formed by the first `k` digits is the frame shifted right -/
theorem natOf_take (m : List Nat) (h : AllNib m) (k : Nat) (hk : k ≤ m.length) :
    natOf (m.take k) = natOf m / 16 ^ (m.length - k) := by
  have hl : (m.drop k).length = m.length - k := by simp
  have e : natOf m = natOf (m.take k) * 16 ^ (m.length - k) + natOf (m.drop k) := by
    conv => lhs; rw [← List.take_append_drop k m]
    rw [natOf_append, hl]
  have hlt := natOf_lt (m.drop k) (allNib_drop h k)
  rw [hl] at hlt
  have hp : 0 < 16 ^ (m.length - k) := Nat.pow_pos (by decide)
  rw [e, Nat.mul_comm, Nat.mul_add_div hp, Nat.div_eq_of_lt hlt]
  simp

theorem nib_eq_getElem (m : List Nat) (i : Nat) (hi : i < m.length) : nib m i = m[i] := by
  simp [nib, List.getD, hi]

theorem take_succ_eq (m : List Nat) (i : Nat) (hi : i < m.length) :
    m.take (i + 1) = m.take i ++ [nib m i] := by
  rw [nib_eq_getElem m i hi]
  exact List.take_succ_eq_append_getElem hi

theorem natOf_take_succ (m : List Nat) (i : Nat) (hi : i < m.length) :
    natOf (m.take (i + 1)) = natOf (m.take i) * 16 + nib m i := by
  rw [take_succ_eq m i hi, natOf_append, natOf_singleton]; simp

theorem nib_lt (m : List Nat) (h : AllNib m) (i : Nat) : nib m i < 16 := by
  unfold nib
  by_cases hi : i < m.length
  · simp [List.getD, hi]; exact h _ (List.getElem_mem hi)
  · simp [List.getD, hi]

/-- the `_` arm's fold: initial value followed by the middle digits -/
theorem midFold_eq (init : Nat) (mid : List Nat) (h : AllNib mid) :
    midFold init mid = init * 16 ^ mid.length + natOf mid := by
  unfold midFold
  induction mid generalizing init with
  | nil => simp [natOf]
  | cons x xs ih =>
    have hx : x < 16 := h x (by simp)
    have hxs : AllNib xs := fun y hy => h y (by simp [hy])
    simp only [List.foldl_cons, List.length_cons]
    rw [ih _ hxs]
    have e1 : x &&& 0xF = x := by
      have : x &&& 15 = x % 16 := Nat.and_two_pow_sub_one_eq_mod x 4
      omega
    have e2 : (init <<< 4 ||| x) = init * 16 + x := by
      rw [← Nat.shiftLeft_add_eq_or_of_lt (by omega : x < 2 ^ 4)]
      simp [Nat.shiftLeft_eq]
    rw [e1, e2]
    rw [natOf_cons, Nat.pow_succ]
    grind

end Sq

namespace Sq
open Spec

theorem mul_add_mod_mul (A d z n : Nat) (hz : z < d) : (A * d + z) % (n * d) = (A % n) * d + z := by
  have hd : 0 < d := by omega
  rw [Nat.mul_comm n d, Nat.mod_mul]
  have h1 : (A * d + z) % d = z := by
    rw [Nat.add_comm, Nat.add_mul_mod_self_right]; exact Nat.mod_eq_of_lt hz
  have h2 : (A * d + z) / d = A := by
    rw [Nat.add_comm, Nat.add_mul_div_right _ _ hd, Nat.div_eq_of_lt hz]; simp
  rw [h1, h2]; grind

theorem and_mask_eq_mod (x sbi : Nat) (hx : x < 16) (hs : sbi < 4) :
    x &&& (0xF >>> sbi) = x % 2 ^ (4 - sbi) := by
  have : ∀ x : Fin 16, ∀ s : Fin 4, x.val &&& (0xF >>> s.val) = x.val % 2 ^ (4 - s.val) := by decide
  exact this ⟨x, hx⟩ ⟨sbi, hs⟩

theorem shl_or_shr (a y ebi : Nat) (hy : y < 16) (he : ebi < 4) :
    (a <<< (ebi + 1)) ||| (y >>> (3 - ebi)) = a * 2 ^ (ebi + 1) + y / 2 ^ (3 - ebi) := by
  have hlt : y >>> (3 - ebi) < 2 ^ (ebi + 1) := by
    have : ∀ y : Fin 16, ∀ e : Fin 4, y.val >>> (3 - e.val) < 2 ^ (e.val + 1) := by decide
    exact this ⟨y, hy⟩ ⟨ebi, he⟩
  rw [← Nat.shiftLeft_add_eq_or_of_lt hlt, Nat.shiftLeft_eq, Nat.shiftRight_eq_div_pow]

theorem bitLocation_eq (p : Nat) : bitLocation p = ((p - 1) / 4, (p - 1) % 4) := by
  unfold bitLocation
  rw [Nat.shiftRight_eq_div_pow, show (3 : Nat) = 2 ^ 2 - 1 by decide, Nat.and_two_pow_sub_one_eq_mod]

/-- `field` through the prefix that ends with the digit holding bit `eb` -/
theorem field_via_take (m : Msg) (h : AllNib m) (sb eb : Nat) (h1 : 1 ≤ eb) (h3 : eb ≤ 4 * m.length) :
    field m sb eb
      = (natOf (m.take ((eb - 1) / 4 + 1)) / 2 ^ (3 - (eb - 1) % 4)) % 2 ^ (eb + 1 - sb) := by
  unfold field
  have hk : (eb - 1) / 4 + 1 ≤ m.length := by omega
  rw [natOf_take m h _ hk, Nat.div_div_eq_div_mul]
  congr 2
  have : (16 : Nat) = 2 ^ 4 := by decide
  rw [this, ← Nat.pow_mul, ← Nat.pow_add]
  congr 1
  omega

theorem rangeValue_eq_field (m : Msg) (h : AllNib m) (sb eb : Nat)
    (h1 : 1 ≤ sb) (h2 : sb ≤ eb) (h3 : eb ≤ 4 * m.length) :
    rangeValue m sb eb = some (field m sb eb) := by
  rw [field_via_take m h sb eb (by omega) h3]
  -- name the digit / bit indices
  generalize hsby : (sb - 1) / 4 = sby
  generalize hsbi : (sb - 1) % 4 = sbi
  generalize heby : (eb - 1) / 4 = eby
  generalize hebi : (eb - 1) % 4 = ebi
  have hsb : sb = 4 * sby + sbi + 1 := by omega
  have heb : eb = 4 * eby + ebi + 1 := by omega
  have hsbi4 : sbi < 4 := by omega
  have hebi4 : ebi < 4 := by omega
  have hebyL : eby < m.length := by omega
  have hle : sby ≤ eby := by omega
  have hy := nib_lt m h eby
  have hx := nib_lt m h sby
  unfold rangeValue
  simp only [bitLocation_eq]
  rw [hsby, hsbi, heby, hebi]
  have hcond : ¬ (eby < sby ∨ eby = sby ∧ ebi < sbi) := by omega
  rw [if_neg hcond]
  congr 1
  rw [natOf_take_succ m eby hebyL]
  generalize hT : natOf (m.take eby) = T
  -- split the three arms
  rcases Nat.lt_or_ge sby eby with hlt | hge
  · -- at least two digits
    have hsplit : m.take eby = m.take (sby + 1) ++ (m.drop (sby + 1)).take (eby - sby - 1) := by
      have : eby = (sby + 1) + (eby - sby - 1) := by omega
      conv => lhs; rw [this]
      exact List.take_add
    generalize hmid : (m.drop (sby + 1)).take (eby - sby - 1) = mid at hsplit
    have hmidn : AllNib mid := by rw [← hmid]; exact allNib_take (allNib_drop h _) _
    have hmidl : mid.length = eby - sby - 1 := by
      rw [← hmid]; simp; omega
    have hTe : T = (natOf (m.take sby) * 16 + nib m sby) * 16 ^ mid.length + natOf mid := by
      rw [← hT, hsplit, natOf_append, natOf_take_succ m sby (by omega)]
    have hM := natOf_lt mid hmidn
    -- the right-hand side
    have hw : eb + 1 - sb = (4 * mid.length + (4 - sbi)) + (ebi + 1) := by omega
    have hdiv : (T * 16 + nib m eby) / 2 ^ (3 - ebi) = T * 2 ^ (ebi + 1) + nib m eby / 2 ^ (3 - ebi) := by
      rcases (by omega : ebi = 0 ∨ ebi = 1 ∨ ebi = 2 ∨ ebi = 3) with e | e | e | e <;> subst e <;> simp <;> omega
    have hz : nib m eby / 2 ^ (3 - ebi) < 2 ^ (ebi + 1) := by
      rcases (by omega : ebi = 0 ∨ ebi = 1 ∨ ebi = 2 ∨ ebi = 3) with e | e | e | e <;> subst e <;> simp <;> omega
    have hrhs : (T * 16 + nib m eby) / 2 ^ (3 - ebi) % 2 ^ (eb + 1 - sb)
        = ((nib m sby % 2 ^ (4 - sbi)) * 16 ^ mid.length + natOf mid) * 2 ^ (ebi + 1)
            + nib m eby / 2 ^ (3 - ebi) := by
      rw [hdiv, hw, Nat.pow_add 2 (4 * mid.length + (4 - sbi)) (ebi + 1), mul_add_mod_mul _ _ _ _ hz]
      congr 2
      rw [hTe, Nat.pow_add 2 (4 * mid.length) (4 - sbi), Nat.pow_mul, show (2 : Nat) ^ 4 = 16 by decide, Nat.mul_comm (16 ^ mid.length),
        mul_add_mod_mul _ _ _ _ hM]
      congr 2
      rcases (by omega : sbi = 0 ∨ sbi = 1 ∨ sbi = 2 ∨ sbi = 3) with e | e | e | e <;> subst e <;> simp <;> omega
    rw [hrhs]
    -- the left-hand side
    rcases Nat.lt_or_ge (eby - sby) 2 with h2' | h2'
    · have he1 : eby - sby = 1 := by omega
      have hm0 : mid = [] := List.eq_nil_of_length_eq_zero (by omega)
      rw [he1]
      simp only
      rw [shl_or_shr _ _ _ hy hebi4, and_mask_eq_mod _ _ hx hsbi4, hm0]
      simp [natOf]
    · obtain ⟨n, hn⟩ : ∃ n, eby - sby = n + 2 := ⟨eby - sby - 2, by omega⟩
      rw [hn]
      simp only
      rw [shl_or_shr _ _ _ hy hebi4, midFold_eq _ _ hmidn, and_mask_eq_mod _ _ hx hsbi4]
  · -- a single digit
    have he : eby = sby := by omega
    subst he
    have h0 : eby - eby = 0 := by omega
    rw [h0]
    simp only
    rw [and_mask_eq_mod _ _ hx hsbi4, Nat.shiftRight_eq_div_pow]
    have hw : eb + 1 - sb = ebi - sbi + 1 := by omega
    rw [hw]
    have hsle : sbi ≤ ebi := by omega
    rcases (by omega : sbi = 0 ∨ sbi = 1 ∨ sbi = 2 ∨ sbi = 3) with e | e | e | e <;> subst e <;>
    rcases (by omega : ebi = 0 ∨ ebi = 1 ∨ ebi = 2 ∨ ebi = 3) with e | e | e | e <;> subst e <;>
      simp at hsle ⊢ <;> omega

end Sq

namespace Sq
open Spec

/-- a sub-range of a field is the corresponding slice of the field's value -/
theorem field_sub (m : Msg) (sb eb a b : Nat) (h1 : sb ≤ a) (h2 : a ≤ b) (h3 : b ≤ eb)
    (h4 : eb ≤ 4 * m.length) :
    field m a b = (field m sb eb / 2 ^ (eb - b)) % 2 ^ (b + 1 - a) := by
  unfold field
  generalize natOf m = P
  have e1 : eb + 1 - sb = (eb - b) + (b + 1 - sb) := by omega
  rw [e1, Nat.pow_add, Nat.mod_mul_right_div_self, Nat.div_div_eq_div_mul, ← Nat.pow_add]
  have e2 : 4 * m.length - eb + (eb - b) = 4 * m.length - b := by omega
  rw [e2]
  have e3 : b + 1 - sb = (b + 1 - a) + (a - sb) := by omega
  rw [e3, Nat.pow_add, Nat.mod_mul_right_mod]

theorem field_lt (m : Msg) (sb eb : Nat) : field m sb eb < 2 ^ (eb + 1 - sb) :=
  Nat.mod_lt _ (Nat.pow_pos (by decide))

end Sq

namespace Sq
open Spec

/-- the single bit read by `flag_and_range_value` is the frame bit of that position -/
theorem flagBit_eq_field (m : Msg) (h : AllNib m) (p : Nat) (h1 : 1 ≤ p) (h2 : p ≤ 4 * m.length) :
    flagBit m p = field m p p := by
  have hr := rangeValue_eq_field m h p p h1 (Nat.le_refl p) h2
  unfold rangeValue at hr
  simp only [bitLocation_eq, Nat.lt_irrefl, false_or, and_false, if_false, Nat.sub_self,
    Option.some.injEq, true_and] at hr
  unfold flagBit
  have hp : ¬ p = 0 := by omega
  simp only [hp, if_false, bitLocation_eq]
  rw [← hr]
  have hx := nib_lt m h ((p - 1) / 4)
  have hb : (p - 1) % 4 < 4 := Nat.mod_lt _ (by decide)
  generalize nib m ((p - 1) / 4) = x at *
  generalize (p - 1) % 4 = b at *
  have : ∀ x : Fin 16, ∀ b : Fin 4, (x.val >>> (3 - b.val)) &&& 1 = (x.val &&& (0xF >>> b.val)) >>> (3 - b.val) := by decide
  exact this ⟨x, hx⟩ ⟨b, hb⟩

theorem flagAndRangeValue_eq (m : Msg) (h : AllNib m) (flag sb eb : Nat) (hf : 1 ≤ flag) (hf2 : flag ≤ 4 * m.length)
    (h1 : 1 ≤ sb) (h2 : sb ≤ eb) (h3 : eb ≤ 4 * m.length) :
    flagAndRangeValue m flag sb eb = some (field m flag flag, field m sb eb) := by
  unfold flagAndRangeValue
  rw [rangeValue_eq_field m h sb eb h1 h2 h3, flagBit_eq_field m h flag hf hf2]
  rfl

theorem statusFlagAndRangeValue_eq (m : Msg) (h : AllNib m) (status flag sb eb : Nat)
    (hs : 1 ≤ status) (hs2 : status ≤ 4 * m.length) (hf : 1 ≤ flag) (hf2 : flag ≤ 4 * m.length)
    (h1 : 1 ≤ sb) (h2 : sb ≤ eb) (h3 : eb ≤ 4 * m.length) :
    statusFlagAndRangeValue m status flag sb eb
      = some (field m status status, field m flag flag, field m sb eb) := by
  unfold statusFlagAndRangeValue
  rw [flagAndRangeValue_eq m h flag sb eb hf hf2 h1 h2 h3, flagBit_eq_field m h status hs hs2]
  rfl

end Sq
