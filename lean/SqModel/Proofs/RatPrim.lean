/-
Facts about the `f64` primitives of `Model/Cpr.lean` (`ratTrunc`, `ratToI32`, `ratFmod`) on whole numbers.
-/
import SqModel.Model.Cpr
import Mathlib.Data.Rat.Floor
import Mathlib.Tactic.Linarith
import Mathlib.Tactic.NormNum
import Mathlib.Tactic.Ring

namespace Sq

/-- the integer part of a quotient of whole numbers is the truncating integer division -/
theorem ratTrunc_int_div (j : Int) (n : Nat) (hn : 0 < n) : ratTrunc ((j : Rat) / (n : Rat)) = Int.tdiv j n := by
  unfold ratTrunc
  have hn' : (0 : Rat) < (n : Rat) := by exact_mod_cast hn
  by_cases h : 0 ≤ (j : Rat) / (n : Rat)
  · rw [if_pos h]
    have hj : 0 ≤ j := by
      have := (div_nonneg_iff.mp h)
      rcases this with ⟨a, _⟩ | ⟨_, b⟩
      · exact_mod_cast a
      · exact absurd b (not_le.mpr hn')
    show ⌊(j : ℚ) / (n : ℚ)⌋ = _
    rw [Rat.floor_intCast_div_natCast, Int.tdiv_eq_ediv_of_nonneg hj]
  · rw [if_neg h]
    have hj : j < 0 := by
      by_contra hc
      exact h (div_nonneg (by exact_mod_cast (not_lt.mp hc)) hn'.le)
    rw [Rat.ceil_eq_neg_floor_neg]
    have e : -((j : ℚ) / (n : ℚ)) = (((-j : Int) : ℚ) / (n : ℚ)) := by push_cast; ring
    rw [e]
    show -⌊((-j : Int) : ℚ) / (n : ℚ)⌋ = _
    rw [Rat.floor_intCast_div_natCast]
    have h2 : Int.tdiv j n = -(Int.tdiv (-j) n) := by rw [Int.neg_tdiv, neg_neg]
    rw [h2, Int.tdiv_eq_ediv_of_nonneg (by omega)]

/-- `%` of whole `f64` values is the truncating remainder -/
theorem ratFmod_int (j : Int) (n : Nat) (hn : 0 < n) : ratFmod (j : Rat) (n : Rat) = ((Int.tmod j n : Int) : Rat) := by
  unfold ratFmod
  rw [ratTrunc_int_div j n hn]
  have := Int.tmod_add_mul_tdiv j n
  have h2 : ((Int.tmod j n : Int) : Rat) + (n : Rat) * ((Int.tdiv j n : Int) : Rat) = (j : Rat) := by exact_mod_cast this
  linarith

theorem ratFmod_60 (j : Int) : ratFmod (j : Rat) (60 : Rat) = ((fmodInt j 60 : Int) : Rat) := by
  have := ratFmod_int j 60 (by decide); simpa [fmodInt] using this
theorem ratFmod_59 (j : Int) : ratFmod (j : Rat) (59 : Rat) = ((fmodInt j 59 : Int) : Rat) := by
  have := ratFmod_int j 59 (by decide); simpa [fmodInt] using this

theorem ratFloor_half (x : Rat) : ratFloor (x + (1 / 2 : Rat)) = ((floorHalf x : Int) : Rat) := rfl

/-- `m as i32` of a whole number that fits is the number -/
theorem ratToI32_int (z : Int) (h : -2147483648 ≤ z ∧ z ≤ 2147483647) : ratToI32 (z : Rat) = z := by
  unfold ratToI32 ratTrunc
  have f : ((z : Rat)).floor = z := by show ⌊(z : ℚ)⌋ = z; exact Int.floor_intCast z
  have c : ((z : Rat)).ceil = z := by rw [Rat.ceil_eq_neg_floor_neg]; show -⌊-(z : ℚ)⌋ = z; rw [← Int.cast_neg, Int.floor_intCast]; omega
  split <;> simp only [f, c] <;> omega

/-- the zone index difference of two 17-bit longitude fields is a small whole number -/
theorem mm_fits (X0 X1 : Nat) (nl : Int) (h0 : X0 < 131072) (h1 : X1 < 131072) (hnl : 0 ≤ nl ∧ nl ≤ 59) :
    let mm := floorHalf (((X0 : ℚ) * ((nl - 1 : ℤ) : ℚ) - (X1 : ℚ) * (nl : ℚ)) / 131072);
    (-2147483648 ≤ mm ∧ mm ≤ 2147483647) := by
  intro mm
  have a0 : (0 : ℚ) ≤ (X0 : ℚ) := by positivity
  have a1 : (0 : ℚ) ≤ (X1 : ℚ) := by positivity
  have b0 : (X0 : ℚ) < 131072 := by exact_mod_cast h0
  have b1 : (X1 : ℚ) < 131072 := by exact_mod_cast h1
  have n0 : (0 : ℚ) ≤ (nl : ℚ) := by exact_mod_cast hnl.1
  have n1 : (nl : ℚ) ≤ 59 := by exact_mod_cast hnl.2
  have hx : |((X0 : ℚ) * ((nl - 1 : ℤ) : ℚ) - (X1 : ℚ) * (nl : ℚ)) / 131072| ≤ 120 := by
    rw [abs_le]; push_cast
    constructor
    · rw [le_div_iff₀ (by norm_num)]; nlinarith
    · rw [div_le_iff₀ (by norm_num)]; nlinarith
  rw [abs_le] at hx
  have f1 : (mm : ℚ) ≤ _ := Int.floor_le (((X0 : ℚ) * ((nl - 1 : ℤ) : ℚ) - (X1 : ℚ) * (nl : ℚ)) / 131072 + 1 / 2)
  have f2 := Int.lt_floor_add_one (((X0 : ℚ) * ((nl - 1 : ℤ) : ℚ) - (X1 : ℚ) * (nl : ℚ)) / 131072 + 1 / 2)
  have g1 : (mm : ℚ) ≤ 121 := by linarith [hx.2]
  have g2 : (-122 : ℚ) < (mm : ℚ) := by
    have : (⌊((X0 : ℚ) * ((nl - 1 : ℤ) : ℚ) - (X1 : ℚ) * (nl : ℚ)) / 131072 + 1 / 2⌋ : ℚ) = (mm : ℚ) := rfl
    linarith [hx.1]
  have g1' : mm ≤ 121 := by exact_mod_cast g1
  have g2' : -122 < mm := by exact_mod_cast g2
  omega

end Sq
