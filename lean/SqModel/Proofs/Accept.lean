/-
Facts about accepted lines: what `getMessage` returns is a vector of 14 or 28 hex digits.
-/
import SqModel.Spec.Bits
import SqModel.Model.Table

namespace Sq
open Spec

theorem hexVal_lt {b v : Nat} (h : hexVal b = some v) : v < 16 := by
  unfold hexVal at h
  split at h
  · simp at h; omega
  · split at h
    · simp at h; omega
    · split at h
      · simp at h; omega
      · simp at h

theorem hexDigits_allNib (line : List Nat) : AllNib (hexDigits line) := by
  intro x hx
  unfold hexDigits at hx
  rw [List.mem_filterMap] at hx
  obtain ⟨b, _, hb⟩ := hx
  exact hexVal_lt hb

theorem cleanDigits_allNib {d m : Msg} (hd : AllNib d) (h : cleanDigits d = some m) : AllNib m := by
  unfold cleanDigits at h
  split at h
  · simp at h; subst h; exact hd
  · split at h
    · simp at h; subst h; exact fun x hx => hd x (List.mem_of_mem_drop hx)
    · simp at h

theorem messageOfDigits_some {d m : Msg} (h : messageOfDigits d = some m) :
    cleanDigits d = some m ∧ (m.length = 14 ∨ m.length = 28) ∧ lengthMatchesDF m = true
      ∧ reminder m = 0 ∧ parityOk m = true := by
  unfold messageOfDigits at h
  simp only [Option.filter_eq_some_iff] at h
  obtain ⟨⟨⟨⟨h1, h2⟩, h3⟩, h4⟩, h5⟩ := h
  refine ⟨h1, ?_, h3, ?_, h5⟩
  · simpa using h2
  · simpa using h4

theorem getMessage_allNib {line : List Nat} {m : Msg} (h : getMessage line = some m) : AllNib m :=
  cleanDigits_allNib (hexDigits_allNib line) (messageOfDigits_some h).1

theorem getMessage_length {line : List Nat} {m : Msg} (h : getMessage line = some m) :
    m.length = 14 ∨ m.length = 28 := (messageOfDigits_some h).2.1

end Sq
