/-
Whole-frame parity: the remainder of a frame is the CRC of its data bits xor its last 24 bits.
From it: the address recovered from AP formats (C03) and the parity gate of squitters (C04)
are what the specification says.
-/
import SqModel.Proofs.Crc
import SqModel.Proofs.Accept
import SqModel.Model.Fields

namespace Sq
open Spec

theorem specStep_zero : specStep 0 false = 0 := by decide

theorem syndrome_zeros (k : Nat) : syndrome (List.replicate k false) = 0 := by
  unfold syndrome
  induction k with
  | zero => rfl
  | succ k ih => rw [List.replicate_succ, List.foldl_cons, specStep_zero]; exact ih

theorem foldl_specStep_zeros (k : Nat) (l : List Bool) :
    syndrome (List.replicate k false ++ l) = syndrome l := by
  unfold syndrome
  rw [List.foldl_append]
  have := syndrome_zeros k
  unfold syndrome at this
  rw [this]

def synd24 (x : BitVec 24) : BitVec 24 := syndrome (bvBits x)

theorem synd24_xor (a b : BitVec 24) : synd24 (a ^^^ b) = synd24 a ^^^ synd24 b := by
  unfold synd24
  rw [bvBits_xor]
  exact syndrome_xor _ _ (by simp [bvBits_length])

/-- 24 bits shifted into an empty register are not reduced -/
theorem syndrome_bits24 (x : BitVec 24) : syndrome (bvBits x) = x := by
  have := linear_ext synd24 id synd24_xor (fun a b => rfl) (by decide +kernel) x
  simpa [synd24] using this

theorem zipWith_xor_false_right (l : List Bool) :
    List.zipWith Bool.xor l (List.replicate l.length false) = l := by
  induction l with
  | nil => rfl
  | cons a l ih => simp [List.replicate_succ, ih]

theorem zipWith_xor_false_left (l : List Bool) :
    List.zipWith Bool.xor (List.replicate l.length false) l = l := by
  induction l with
  | nil => rfl
  | cons a l ih => simp [List.replicate_succ, ih]

/-- remainder of data followed by a 24-bit parity field -/
theorem syndrome_append (d : List Bool) (p : BitVec 24) :
    syndrome (d ++ bvBits p) = crc24 d ^^^ p := by
  have hsplit : d ++ bvBits p
      = List.zipWith Bool.xor (d ++ List.replicate 24 false) (List.replicate d.length false ++ bvBits p) := by
    rw [List.zipWith_append (by simp)]
    have h24 : (bvBits p).length = 24 := bvBits_length p
    rw [zipWith_xor_false_right]
    have := zipWith_xor_false_left (bvBits p)
    rw [h24] at this
    rw [this]
  rw [hsplit, syndrome_xor _ _ (by simp [bvBits_length]), foldl_specStep_zeros, syndrome_bits24]
  rfl

/-- `bvBits_ofNat_field` for a field that does not start at bit 1 -/
theorem bvBits_ofNat_field' (m : Msg) (a k : Nat) (ha : 1 ≤ a) (hn : a + k - 1 ≤ 4 * m.length) :
    bvBits (BitVec.ofNat k (field m a (a + k - 1))) = (List.range' a k).map (bit m) := by
  unfold bvBits
  apply List.ext_getElem
  · simp
  · intro i h1 h2
    have hi : i < k := by simpa using h1
    simp only [List.getElem_map, List.getElem_range, List.getElem_range']
    unfold bit
    rw [field_sub m a (a + k - 1) (a + 1 * i) (a + 1 * i) (by omega) (by omega) (by omega) hn]
    rw [BitVec.getMsbD_eq_getLsbD, BitVec.getLsbD_ofNat]
    have hlt : k - 1 - i < k := by omega
    simp only [hi, hlt, decide_true, Bool.true_and]
    have : (a + 1 * i) + 1 - (a + 1 * i) = 1 := by omega
    rw [this, Nat.testBit_eq_decide_div_mod_eq]
    have e : a + k - 1 - (a + 1 * i) = k - 1 - i := by omega
    rw [e]
    simp
    generalize field m a (a + k - 1) / 2 ^ (k - 1 - i) % 2 = z
    by_cases hz : z = 1 <;> simp [hz]

/-- the frame's remainder: CRC of everything but the last 24 bits, xor the last 24 bits -/
theorem syndrome_frame (m : Msg) (n : Nat) (hn : n = 4 * m.length) (h24 : 24 ≤ n) :
    syndrome (bitsOf m 1 n)
      = crc24 (bitsOf m 1 (n - 24)) ^^^ BitVec.ofNat 24 (field m (n - 23) n) := by
  have hsplit : bitsOf m 1 n = bitsOf m 1 (n - 24) ++ (List.range' (n - 23) 24).map (bit m) := by
    unfold bitsOf
    rw [← List.map_append]
    congr 1
    have e1 : n + 1 - 1 = (n - 24) + 24 := by omega
    have e2 : n - 24 + 1 - 1 = n - 24 := by omega
    have e3 : n - 23 = 1 + (n - 24) := by omega
    rw [e1, e2, e3, List.range'_append_1]
  rw [hsplit]
  have := bvBits_ofNat_field' m (n - 23) 24 (by omega) (by omega)
  have e : n - 23 + 24 - 1 = n := by omega
  rw [e] at this
  rw [← this, syndrome_append]

end Sq
