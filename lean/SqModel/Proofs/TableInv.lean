/-
The invariants under which one iteration of the reader loop is trap-free (`Safe.read_lines_step_safe`: every row's altitude
is below 100 000, no DF counted 2^31-1 times, sweep counter <= 11) hold in every state the loop can reach.  Proved on the
hand-written model (`stepLine`), which the translated loop body simulates (`BridgeTable.read_lines_step_sim`), and carried
over: `no_trap_run` - a whole run of the reader over fewer than 2^31-1 lines, each at its own time, never reaches a state in
which the translated per-line code can trap.
-/
import SqModel.Proofs.Safe

namespace Sq.Safe
open Sq Sq.Bridge

/-- every altitude the decoder can produce is below 100 000 ft (model side of `altitude_lt`) -/
theorem sqAltitude_lt (m : Msg) (df a : Nat) (h : Sq.altitude m df = some a) : a < 100000 := by
  rw [← altitude_eq] at h; exact altitude_lt m df a h

def MAltOK (p : Plane) : Prop := ∀ a, p.altitude = some a → a < 100000
def OptAltOK (o : Option Nat) : Prop := ∀ a, o = some a → a < 100000
def MTableOK (t : Table) : Prop := ∀ kp ∈ t, MAltOK kp.2

theorem optAlt_none : OptAltOK none := by intro a h; cases h
theorem optAlt_dec (m : Msg) (df : Nat) : OptAltOK (Sq.altitude m df) := fun a h => sqAltitude_lt m df a h

/-- a row whose altitude field is unchanged, or is an admissible value, stays admissible -/
theorem maltOK_of_eq {p q : Plane} (h : q.altitude = p.altitude) (hp : MAltOK p) : MAltOK q := by
  intro a ha; rw [h] at ha; exact hp a ha
theorem maltOK_of_opt {q : Plane} (o : Option Nat) (h : q.altitude = o) (ho : OptAltOK o) : MAltOK q := by
  intro a ha; rw [h] at ha; exact ho a ha

-- what leaves the altitude alone -------------------------------------------------------------------------------------

@[simp] theorem updatePosition_alt (env : Env) (p : Plane) (mt f : Nat) : (p.updatePosition env mt f).altitude = p.altitude := by
  unfold Plane.updatePosition
  split
  · split <;> rfl
  · rfl

@[simp] theorem setCprSlot_alt (p : Plane) (mt : Nat) (c : Nat × Nat × Nat) : (p.setCprSlot mt c).altitude = p.altitude := by
  unfold Plane.setCprSlot; split <;> rfl

@[simp] theorem storeCpr_alt (env : Env) (p : Plane) (mt : Nat) (c : Option (Nat × Nat × Nat)) :
    (p.storeCpr env mt c).altitude = p.altitude := by
  unfold Plane.storeCpr
  cases c with
  | none => rfl
  | some v => simp

-- the records built from a frame --------------------------------------------------------------------------------------

def RecOK : DFRec → Prop
  | .srt v => OptAltOK v.altitude
  | .ext v => OptAltOK v.altitude
  | .mds _ => True

theorem srt_fromMessage_ok (m : Msg) : OptAltOK (Srt.fromMessage m).altitude := by
  unfold Srt.fromMessage
  split
  · exact optAlt_none
  · simp only []
    split
    · exact optAlt_dec m _
    · split
      · exact optAlt_none
      · split <;> exact optAlt_none

theorem ext_fromMessage_ok (env : Env) (m : Msg) : OptAltOK (Ext.fromMessage env m).altitude := by
  unfold Ext.fromMessage
  split
  · exact optAlt_none
  · simp only []
    repeat' split
    all_goals first | exact optAlt_none | exact optAlt_dec m _

theorem rec_fromMessage_ok (env : Env) (m : Msg) (dl : DFRec) (h : DFRec.fromMessage env m = some dl) : RecOK dl := by
  unfold DFRec.fromMessage at h
  split at h
  · cases h
  · split at h
    · cases h; exact srt_fromMessage_ok m
    · split at h
      · cases h; exact ext_fromMessage_ok env m
      · split at h
        · cases h; trivial
        · cases h; exact optAlt_none

-- the default path ---------------------------------------------------------------------------------------------------

theorem amendSrt_ok (p : Plane) (dl : Srt) (hp : MAltOK p) (hd : OptAltOK dl.altitude) : MAltOK (p.amendSrt dl) := by
  unfold Plane.amendSrt
  split
  · intro a ha
    simp only [] at ha
    split at ha
    · exact hd a ha
    · exact hp a ha
  · exact hp

theorem amendExtTc_ok (env : Env) (p : Plane) (dl : Ext) (hp : MAltOK p) (hd : OptAltOK dl.altitude) : MAltOK (p.amendExtTc env dl) := by
  unfold Plane.amendExtTc
  simp only []
  repeat' split
  all_goals first
    | exact hp
    | (unfold Plane.amendExt14; exact maltOK_of_eq rfl hp)
    | (unfold Plane.amendExt58; exact maltOK_of_opt dl.altitude (by simp) hd)
    | (unfold Plane.amendExt918; exact maltOK_of_opt dl.altitude (by simp) hd)
    | (unfold Plane.amendExt19; exact maltOK_of_eq rfl hp)
    | (unfold Plane.amendExt2022; exact maltOK_of_eq rfl hp)
    | (unfold Plane.amendExt31; exact maltOK_of_eq rfl hp)

theorem amendExt_ok (env : Env) (p : Plane) (dl : Ext) (hp : MAltOK p) (hd : OptAltOK dl.altitude) : MAltOK (p.amendExt env dl) := by
  unfold Plane.amendExt
  split
  · exact amendExtTc_ok env _ dl (maltOK_of_eq rfl hp) hd
  · exact hp

theorem updateFromDownlink_ok (env : Env) (now : Int) (p : Plane) (dl : DFRec) (hp : MAltOK p) (hd : RecOK dl) :
    MAltOK (p.updateFromDownlink env now dl) := by
  unfold Plane.updateFromDownlink
  cases dl with
  | srt v => exact amendSrt_ok _ v (maltOK_of_eq rfl hp) hd
  | ext v => exact amendExt_ok env _ v (maltOK_of_eq rfl hp) hd
  | mds i => exact maltOK_of_eq rfl hp

theorem new_ok (now : Int) : MAltOK (Plane.new now) := by intro a h; cases h

theorem fromDownlink_ok (env : Env) (now : Int) (dl : DFRec) (icao : Nat) (hd : RecOK dl) : MAltOK (Plane.fromDownlink env now dl icao) := by
  unfold Plane.fromDownlink
  exact updateFromDownlink_ok env now _ dl (maltOK_of_eq rfl (new_ok now)) hd

-- the -U path ---------------------------------------------------------------------------------------------------------

theorem updateFromBcast_ok (p : Plane) (m : Msg) (df : Nat) (hp : MAltOK p) : MAltOK (p.updateFromBcast m df) := by
  unfold Plane.updateFromBcast
  intro a ha
  simp only [] at ha
  split at ha
  · exact sqAltitude_lt m df a ha
  · exact hp a ha

theorem updateExtTc_ok (env : Env) (p : Plane) (m : Msg) (df tc st : Nat) (hp : MAltOK p) : MAltOK (p.updateExtTc env m df tc st) := by
  unfold Plane.updateExtTc
  repeat' split
  all_goals first
    | exact hp
    | (unfold Plane.updateExt14; exact maltOK_of_eq rfl hp)
    | (unfold Plane.updateExt58; exact maltOK_of_opt none (by simp) optAlt_none)
    | (unfold Plane.updateExt918; exact maltOK_of_opt (Sq.altitude m df) (by simp) (optAlt_dec m df))
    | (unfold Plane.updateExt19; exact maltOK_of_eq rfl hp)
    | (unfold Plane.updateExt2022; exact maltOK_of_eq rfl hp)
    | (unfold Plane.updateExt31; exact maltOK_of_eq rfl hp)

theorem updateFromExt_ok (env : Env) (p : Plane) (m : Msg) (df : Nat) (hp : MAltOK p) : MAltOK (p.updateFromExt env m df) := by
  unfold Plane.updateFromExt
  exact updateExtTc_ok env _ m df _ _ (maltOK_of_eq rfl hp)

/-- the Comm-B stages never touch the altitude -/
theorem stageCoded_alt (m : Msg) (p : Plane) : (stageCoded m p).1.altitude = p.altitude := by
  unfold stageCoded; simp only []; split <;> split <;> rfl
theorem stage17_alt (m : Msg) (st : Plane × Bool) : (stage17 m st).1.altitude = st.1.altitude := by
  unfold stage17; split <;> [split; skip] <;> rfl
theorem stage40_alt (m : Msg) (r : Bool) (st : Plane × Bool) : (stage40 m r st).1.altitude = st.1.altitude := by
  unfold stage40; split <;> [split; skip] <;> rfl
theorem stage50_alt (m : Msg) (r : Bool) (st : Plane × Bool) : (stage50 m r st).1.altitude = st.1.altitude := by
  unfold stage50; split <;> [split; skip] <;> rfl
theorem stage60_alt (m : Msg) (r : Bool) (st : Plane × Bool) : (stage60 m r st).1.altitude = st.1.altitude := by
  unfold stage60; split <;> [split; skip] <;> rfl
theorem stage44_alt (m : Msg) (st : Plane × Bool) : (stage44 m st).1.altitude = st.1.altitude := by
  unfold stage44; split <;> [split; skip] <;> rfl
theorem stage45_alt (m : Msg) (st : Plane × Bool) : (stage45 m st).altitude = st.1.altitude := by
  unfold stage45; split <;> [split; skip] <;> rfl

theorem updateFromModeS_alt (p : Plane) (m : Msg) (r : Bool) : (p.updateFromModeS m r).altitude = p.altitude := by
  unfold Plane.updateFromModeS
  rw [stage45_alt, stage44_alt, stage60_alt, stage50_alt, stage40_alt, stage17_alt, stageCoded_alt]

theorem gate_ok (p2 : Plane) (m : Msg) (df : Nat) (r : Bool) (h2 : MAltOK p2) :
    MAltOK (if commBGate p2 df r then p2.updateFromModeS m r else p2) := by
  split
  · exact maltOK_of_eq (updateFromModeS_alt _ m r) h2
  · exact h2

theorem update_ok (env : Env) (now : Int) (p : Plane) (m : Msg) (df : Nat) (r : Bool) (hp : MAltOK p) : MAltOK (p.update env now m df r) := by
  unfold Plane.update
  simp only []
  have h1 : MAltOK (Plane.updateFromBcast { p with timestamp := now, lastDf := df } m df) :=
    updateFromBcast_ok _ m df (maltOK_of_eq rfl hp)
  have h2 : MAltOK (if df = 17 ∨ df = 18 then (Plane.updateFromBcast { p with timestamp := now, lastDf := df } m df).updateFromExt env m df
      else Plane.updateFromBcast { p with timestamp := now, lastDf := df } m df) := by
    split
    · exact updateFromExt_ok env _ m df h1
    · exact h1
  exact gate_ok _ m df r h2

-- the table and the counters ------------------------------------------------------------------------------------------

theorem applyFrame_ok (env : Env) (cfg : DecodeCfg) (now : Int) (p : Plane) (dl : DFRec) (m : Msg) (df : Nat)
    (hp : MAltOK p) (hd : RecOK dl) : MAltOK (applyFrame env cfg now p dl m df) := by
  unfold applyFrame
  split
  · exact updateFromDownlink_ok env now p dl hp hd
  · exact update_ok env now p m df _ hp

theorem updateAircraft_ok (env : Env) (cfg : DecodeCfg) (now : Int) (t : Table) (dl : DFRec) (m : Msg) (df icao : Nat)
    (ht : MTableOK t) (hd : RecOK dl) : MTableOK (updateAircraft env cfg now t dl m df icao) := by
  unfold updateAircraft
  split
  · intro kp hkp
    rw [List.mem_map] at hkp
    obtain ⟨q, hq, rfl⟩ := hkp
    split
    · exact applyFrame_ok env cfg now q.2 dl m df (ht q hq) hd
    · exact ht q hq
  · intro kp hkp
    rw [List.mem_append] at hkp
    rcases hkp with h | h
    · exact ht kp h
    · simp only [List.mem_singleton] at h; subst h
      exact fromDownlink_ok env now dl icao hd

/-- the counters after `n` lines: no count above `n`, the sweep counter at most 11 -/
def MCountOK (n : Nat) (s : RState) : Prop := (∀ kc ∈ s.dfCount, 0 ≤ kc.2 ∧ kc.2 ≤ (n : Int)) ∧ s.cleanupCount ≤ 11

theorem bumpCount_ok (l : List (Nat × Int)) (df n : Nat) (h : ∀ kc ∈ l, 0 ≤ kc.2 ∧ kc.2 ≤ (n : Int)) :
    ∀ kc ∈ bumpCount l df, 0 ≤ kc.2 ∧ kc.2 ≤ ((n + 1 : Nat) : Int) := by
  induction l with
  | nil =>
    intro kc hkc
    simp only [bumpCount, List.mem_singleton] at hkc; subst hkc
    simp
  | cons x rest ih =>
    obtain ⟨k, c⟩ := x
    have hx := h (k, c) (by simp)
    have hr : ∀ kc ∈ rest, 0 ≤ kc.2 ∧ kc.2 ≤ (n : Int) := fun kc hkc => h kc (by simp [hkc])
    intro kc hkc
    simp only [bumpCount] at hkc
    split at hkc
    · simp only [List.mem_cons] at hkc
      rcases hkc with e | e | e
      · subst e; simp
      · subst e; simp only [] at hx ⊢; push_cast; omega
      · have := hr kc e; push_cast; omega
    · split at hkc
      · simp only [List.mem_cons] at hkc
        rcases hkc with e | e
        · subst e; simp only [] at hx ⊢; push_cast; omega
        · have := hr kc e; push_cast; omega
      · simp only [List.mem_cons] at hkc
        rcases hkc with e | e
        · subst e; simp only [] at hx ⊢; push_cast; omega
        · exact ih hr kc e

theorem stepLine_ok (env : Env) (cfg : DecodeCfg) (now : Int) (s : RState) (line : List Nat) (n : Nat)
    (ht : MTableOK s.table) (hc : MCountOK n s) :
    MTableOK (stepLine env cfg now s line).table ∧ MCountOK (n + 1) (stepLine env cfg now s line) := by
  have mono : MCountOK (n + 1) s := ⟨fun kc hkc => by have := hc.1 kc hkc; push_cast; omega, hc.2⟩
  unfold stepLine
  split
  · exact ⟨ht, mono⟩
  · rename_i m df icao _
    simp only []
    have hc' : ∀ kc ∈ (if cfg.countDf then { s with dfCount := bumpCount s.dfCount df } else s).dfCount,
        0 ≤ kc.2 ∧ kc.2 ≤ ((n + 1 : Nat) : Int) := by
      split
      · exact bumpCount_ok s.dfCount df n hc.1
      · exact mono.1
    have htab : (if cfg.countDf then { s with dfCount := bumpCount s.dfCount df } else s).table = s.table := by split <;> rfl
    have hcl : (if cfg.countDf then { s with dfCount := bumpCount s.dfCount df } else s).cleanupCount = s.cleanupCount := by split <;> rfl
    generalize (if cfg.countDf then { s with dfCount := bumpCount s.dfCount df } else s) = s1 at hc' htab hcl ⊢
    split
    · rename_i dl hdl
      have hd : RecOK dl := rec_fromMessage_ok env m dl hdl
      have hu := updateAircraft_ok env cfg now s1.table dl m df icao (htab ▸ ht) hd
      unfold cleanup
      simp only []
      refine ⟨?_, ?_, ?_⟩
      · split
        · intro kp hkp; exact hu kp (List.mem_filter.mp hkp).1
        · exact hu
      · split <;> exact hc'
      · split
        · simp
        · rename_i h; simp only [] at h ⊢; rw [hcl] at h ⊢; omega
    · exact ⟨htab ▸ ht, hc', hcl ▸ hc.2⟩

-- from the model back to the translated code ----------------------------------------------------------------------------

theorem tableOK_of_model (t : Table) (h : MTableOK t) : TableOK (tableToT t) := by
  intro kv hkv
  unfold tableToT at hkv
  simp only [List.mem_map] at hkv
  obtain ⟨kp, hkp, rfl⟩ := hkv
  exact fun a ha => h kp hkp a ha

theorem countOK_of_model (n : Nat) (s : RState) (ts : Int) (h : MCountOK n s) (hn : n + 1 < 2147483648) : CountOK (countersToT s ts) := by
  refine ⟨?_, h.2⟩
  intro kc hkc
  have := h.1 kc hkc
  have hn' : ((n : Nat) : Int) + 1 < 2147483648 := by exact_mod_cast hn
  constructor <;> omega

/-- a line of characters as the ASCII line with the same hexadecimal digits (all that `get_message` reads of a line) -/
def asciiOfDigit (d : Nat) : Nat := if d < 10 then 48 + d else 55 + d
def lineOfChars (cs : List Char) : List Nat := (cs.filterMap charToDigit16).map asciiOfDigit

theorem charToDigit16_lt (c : Char) (d : Nat) (h : charToDigit16 c = some d) : d < 16 := by
  unfold charToDigit16 at h
  simp only [] at h
  split at h
  · cases h; omega
  · split at h
    · cases h; omega
    · split at h
      · cases h; omega
      · cases h

theorem hexVal_ascii (d : Nat) (h : d < 16) : hexVal (asciiOfDigit d) = some d := by
  unfold hexVal asciiOfDigit
  by_cases h10 : d < 10
  · rw [if_pos h10, if_pos (by omega)]; congr 1; omega
  · rw [if_neg h10, if_neg (by omega), if_pos (by omega)]; congr 1; omega

theorem hexDigits_lineOfChars (cs : List Char) : hexDigits (lineOfChars cs) = cs.filterMap charToDigit16 := by
  unfold hexDigits lineOfChars
  induction cs with
  | nil => rfl
  | cons c cs ih =>
    simp only [List.filterMap_cons]
    cases hc : charToDigit16 c with
    | none => simpa using ih
    | some d =>
      simp only [List.map_cons, List.filterMap_cons, hexVal_ascii d (charToDigit16_lt c d hc)]
      exact congrArg _ ih

/-- the gate on any line of characters (whatever the lossy UTF-8 decoding produced) is the model's gate on the ASCII line
    with the same digits -/
theorem get_message_chars (cs : List Char) : T.get_message cs = getMessage (lineOfChars cs) := by
  rw [get_message_eq]; unfold getMessage; rw [hexDigits_lineOfChars]

/-- a run of the reader: each line (as characters) with the time at which it is processed -/
abbrev Run := List (Int × List Char)

def modelRun (env : Env) (cfg : DecodeCfg) (s : RState) (r : Run) : RState :=
  r.foldl (fun s nl => stepLine env cfg nl.1 s (lineOfChars nl.2)) s

def codeRun (te : TEnv) (a : T.Args) (st : T.Planes × T.AppCounters) (r : Run) : T.Planes × T.AppCounters :=
  r.foldl (fun st nl => T.read_lines_step nl.1 te nl.2 a st.1 st.2) st

/-- the translated loop, line after line at varying times, is the model's (`read_lines_fold_sim` with a clock, for lines of
    arbitrary characters) -/
theorem run_sim (te : TEnv) (a : T.Args) (ts : Int) (r : Run) (s : RState) :
    codeRun te a (tableToT s.table, countersToT s ts) r
      = (tableToT (modelRun (envOfT te) (cfgOfArgs a) s r).table, countersToT (modelRun (envOfT te) (cfgOfArgs a) s r) ts) := by
  induction r generalizing s with
  | nil => rfl
  | cons nl rest ih =>
    simp only [codeRun, modelRun, List.foldl_cons]
    rw [read_lines_step_sim nl.1 te nl.2 (lineOfChars nl.2) a s ts (get_message_chars nl.2)]
    exact ih _

theorem modelRun_ok (env : Env) (cfg : DecodeCfg) (r : Run) (s : RState) (n : Nat) (ht : MTableOK s.table) (hc : MCountOK n s) :
    MTableOK (modelRun env cfg s r).table ∧ MCountOK (n + r.length) (modelRun env cfg s r) := by
  induction r generalizing s n with
  | nil => exact ⟨ht, hc⟩
  | cons nl rest ih =>
    obtain ⟨h1, h2⟩ := stepLine_ok env cfg nl.1 s (lineOfChars nl.2) n ht hc
    have := ih (stepLine env cfg nl.1 s (lineOfChars nl.2)) (n + 1) h1 h2
    simp only [modelRun, List.foldl_cons, List.length_cons] at this ⊢
    have e : n + 1 + rest.length = n + (rest.length + 1) := by omega
    rw [e] at this; exact this

/-- **Every state the reader loop reaches is one in which the next line cannot trap.**  For a run `r` of lines of arbitrary
    characters, each at its own time, started on a table whose rows are admissible (the empty table of a fresh start, or what
    an earlier `read_lines` call left behind) with fresh counters, and any next line: the translated loop body meets all its
    trap-freedom obligations in the state the run ends in - provided fewer than 2^31 - 1 lines were processed (the DF counters
    are `i32`: the 2^31-th frame of one format does overflow `+= 1`, see DESIGN 14.9). -/
theorem no_trap_run (te : TEnv) (a : T.Args) (ts : Int) (r : Run)
    (hlen : r.length + 1 < 2147483648) (s0 : RState) (h0 : MTableOK s0.table) (hc0 : MCountOK 0 s0)
    (now : Int) (next : List Char) :
    T.read_lines_step.safe now te next a (codeRun te a (tableToT s0.table, countersToT s0 ts) r).1
      (codeRun te a (tableToT s0.table, countersToT s0 ts) r).2 := by
  rw [run_sim te a ts r s0]
  obtain ⟨h1, h2⟩ := modelRun_ok (envOfT te) (cfgOfArgs a) r s0 0 h0 hc0
  simp only [Nat.zero_add] at h2
  exact read_lines_step_safe now te next a _ _ (tableOK_of_model _ h1) (countOK_of_model _ _ ts h2 hlen)

/-- the start of the program: empty table, fresh counters -/
theorem fresh_ok : MTableOK ({} : RState).table ∧ MCountOK 0 ({} : RState) := by
  refine ⟨?_, ?_, ?_⟩
  · intro kp h; cases h
  · intro kc h; cases h
  · decide

end Sq.Safe
