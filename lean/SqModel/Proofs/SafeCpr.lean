/-
Trap-freedom of `src/decoder/adsb/position.rs` (`Generated/TransSafe.lean`): `pmod`, `nl`, `fixed_lat`, `signed_lon`,
`cpr_location` evaluate without a trapping operation whenever the frame format is a one-bit value and the
coefficient is one of the two the call sites pass (1 airborne, 4 surface).
-/
import SqModel.Generated.TransSafe
import SqModel.Proofs.BridgeCpr
import SqModel.Proofs.CprMath

namespace Sq.Safe
open Sq Sq.Bridge

theorem fixed_lat_safe (lat : Rat) : T.fixed_lat.safe lat := trivial
theorem signed_lon_safe (lon : Rat) : T.signed_lon.safe lon := trivial
theorem nl_safe (lat : Rat) : T.nl.safe lat := trivial

theorem nl_range (lat : Rat) : 1 ≤ T.nl lat ∧ T.nl lat ≤ 59 := by
  rw [nl_eq]; exact CprMath.nlOf_range lat

/-- `pmod(x, y)` for a positive modulus that leaves room for one addition -/
theorem pmod_safe (x y : Int) (hy : 1 ≤ y ∧ y ≤ 1073741824) : T.pmod.safe x y := by
  unfold T.pmod.safe
  refine ⟨by omega, by omega, ?_⟩
  intro res hneg
  have h1 : -y < Int.tmod x y := Int.lt_tmod_of_pos x (by omega)
  have h2 : Int.tmod x y < y := Int.tmod_lt_of_pos x (by omega)
  show -(2:Int)^31 ≤ Int.tmod x y + y ∧ Int.tmod x y + y < (2:Int)^31
  constructor <;> omega

theorem tdiv_small (n c : Int) (hn : 1 ≤ n ∧ n ≤ 59) (hc : c = 1 ∨ c = 4) : 0 ≤ Int.tdiv n c ∧ Int.tdiv n c ≤ 59 := by
  rcases hc with h | h <;> subst h
  · simp; omega
  · have := Int.tdiv_eq_ediv_of_nonneg (a := n) (b := 4) (by omega)
    rw [this]; omega

theorem cpr_location_safe (lat lon : Nat × Nat) (form : Nat) (coeff : Int) (hf : form ≤ 1) (hc : coeff = 1 ∨ coeff = 4) :
    T.cpr_location.safe lat lon form coeff := by
  unfold T.cpr_location.safe
  simp only []
  have c0 : coeff ≠ 0 := by omega
  have c1 : coeff ≠ -1 := by omega
  and_intros
  all_goals first
    | trivial
    | (intro _ _; exact c0)
    | (intro _ _; omega)
    | skip
  all_goals (
    generalize h1 : T.nl _ = n1
    have r1 : 1 ≤ n1 ∧ n1 ≤ 59 := h1 ▸ nl_range _
    generalize h2 : T.nl _ = n2
    have r2 : 1 ≤ n2 ∧ n2 ≤ 59 := h2 ▸ nl_range _
    clear h1 h2
    have t1 := tdiv_small n1 coeff r1 hc
    have t2 := tdiv_small n2 coeff r2 hc
    intro hnl
    have e : n1 = n2 := by simpa using hnl
    subst e
    rcases (by omega : form = 0 ∨ form = 1) with h | h <;> subst h <;> (try simp only []) <;>
      first
        | omega
        | exact c0
        | trivial
        | (simp only [if_true, show ¬ ((0 : Nat) = 1) by decide, if_false]; omega)
        | (simp only [if_true, show ¬ ((0 : Nat) = 1) by decide, if_false]; exact pmod_safe _ _ (by omega))
        | (simp; done))

end Sq.Safe
