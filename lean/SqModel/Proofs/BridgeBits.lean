import SqModel.Generated.TransFrame
import SqModel.Proofs.BridgeReminder
import SqModel.Proofs.Bits
import SqModel.Model.Frame
import SqModel.Model.Fields

namespace Sq.Bridge
open Sq

theorem shlW_of_lt {w a b : Nat} (h : a <<< b < 2 ^ w) : shlW w a b = a <<< b := by
  unfold shlW; exact Nat.mod_eq_of_lt h

theorem shl_lt {a b n : Nat} (h : a < 2 ^ n) : a <<< b < 2 ^ (n + b) := by
  rw [Nat.shiftLeft_eq, Nat.pow_add]
  exact Nat.mul_lt_mul_of_lt_of_le h (Nat.le_refl _) (Nat.two_pow_pos b)

theorem bit_location_eq (p : Nat) : T.bit_location p = bitLocation p := rfl

/-- the wrapping fold of the code is the unbounded fold of the model while the accumulated field fits 32 bits -/
theorem midFoldW (l : List Nat) : ∀ (init b : Nat), init < 2 ^ b → b + 4 * l.length ≤ 32 →
    l.foldl (fun a x => (shlW 32 a 4) ||| (x &&& 0xF)) init = midFold init l ∧ midFold init l < 2 ^ (b + 4 * l.length) := by
  induction l with
  | nil => intro init b h _; simpa [midFold] using h
  | cons x xs ih =>
    intro init b h hb
    simp only [List.length_cons] at hb
    have h1 : init <<< 4 < 2 ^ (b + 4) := shl_lt h
    have h2 : init <<< 4 < 2 ^ 32 := Nat.lt_of_lt_of_le h1 (Nat.pow_le_pow_right (by decide) (by omega))
    have h3 : (init <<< 4) ||| (x &&& 0xF) < 2 ^ (b + 4) := by
      apply Nat.or_lt_two_pow h1
      have : x &&& 0xF ≤ 0xF := Nat.and_le_right
      have : (2:Nat) ^ 4 ≤ 2 ^ (b + 4) := Nat.pow_le_pow_right (by decide) (by omega)
      omega
    have := ih ((init <<< 4) ||| (x &&& 0xF)) (b + 4) h3 (by omega)
    simp only [List.foldl_cons, midFold, shlW_of_lt h2, List.length_cons]
    simp only [midFold] at this
    refine ⟨this.1, ?_⟩
    have e : b + 4 + 4 * xs.length = b + 4 * (xs.length + 1) := by omega
    rw [← e]; exact this.2


theorem mask_lt (x sbi : Nat) (hs : sbi < 4) : x &&& (0xF >>> sbi) < 2 ^ (4 - sbi) := by
  have h1 : x &&& (0xF >>> sbi) ≤ 0xF >>> sbi := Nat.and_le_right
  have h2 : ∀ s : Fin 4, 0xF >>> s.val < 2 ^ (4 - s.val) := by decide
  exact Nat.lt_of_le_of_lt h1 (h2 ⟨sbi, hs⟩)

/-- `range_value`: the code (wrapping 32-bit shifts) computes the model's value for every field of at most 32 bits -/
theorem range_value_eq (m : Msg) (sb eb : Nat) (h1 : 1 ≤ sb) (hw : eb < sb + 32) :
    T.range_value m sb eb = rangeValue m sb eb := by
  simp only [T.range_value, rangeValue, bit_location_eq, bitLocation_eq]
  have hsbi : (sb - 1) % 4 < 4 := Nat.mod_lt _ (by decide)
  have hebi : (eb - 1) % 4 < 4 := Nat.mod_lt _ (by decide)
  have hf := mask_lt (nib m ((sb - 1) / 4)) ((sb - 1) % 4) hsbi
  split
  · rfl
  · rename_i hc
    congr 1
    rcases hd : (eb - 1) / 4 - (sb - 1) / 4 with _ | _ | k
    · simp
    · have h8 : (nib m ((sb - 1) / 4) &&& (0xF >>> ((sb - 1) % 4))) <<< ((eb - 1) % 4 + 1) < 2 ^ 32 := by
        have := shl_lt (b := (eb - 1) % 4 + 1) hf
        exact Nat.lt_of_lt_of_le this (Nat.pow_le_pow_right (by decide) (by omega))
      simp [shlW_of_lt h8]
    · have hlen : ((m.drop ((sb - 1) / 4 + 1)).take ((eb - 1) / 4 - ((sb - 1) / 4 + 1))).length ≤ k + 1 := by
        simp only [List.length_take]; omega
      have hb : (4 - (sb - 1) % 4) + 4 * ((m.drop ((sb - 1) / 4 + 1)).take ((eb - 1) / 4 - ((sb - 1) / 4 + 1))).length + ((eb - 1) % 4 + 1) ≤ 32 := by
        omega
      have hm := midFoldW ((m.drop ((sb - 1) / 4 + 1)).take ((eb - 1) / 4 - ((sb - 1) / 4 + 1))) _ _ hf (by omega)
      have h9 : midFold (nib m ((sb - 1) / 4) &&& (0xF >>> ((sb - 1) % 4))) ((m.drop ((sb - 1) / 4 + 1)).take ((eb - 1) / 4 - ((sb - 1) / 4 + 1))) <<< ((eb - 1) % 4 + 1) < 2 ^ 32 := by
        have := shl_lt (b := (eb - 1) % 4 + 1) hm.2
        exact Nat.lt_of_lt_of_le this (Nat.pow_le_pow_right (by decide) (by omega))
      have e : (eb - 1) / 4 - ((sb - 1) / 4 + 1) = k + 1 := by omega
      rw [e] at hm h9
      simp [hm.1, shlW_of_lt h9, e]


theorem flag_and_range_value_eq (m : Msg) (flag sb eb : Nat) (h1 : 1 ≤ sb) (hw : eb < sb + 32) :
    T.flag_and_range_value m flag sb eb = flagAndRangeValue m flag sb eb := by
  simp only [T.flag_and_range_value, flagAndRangeValue, flagBit, range_value_eq m sb eb h1 hw, bit_location_eq]

theorem status_flag_and_range_value_eq (m : Msg) (status flag sb eb : Nat) (h1 : 1 ≤ sb) (hw : eb < sb + 32) :
    T.status_flag_and_range_value m status flag sb eb = statusFlagAndRangeValue m status flag sb eb := by
  simp only [T.status_flag_and_range_value, statusFlagAndRangeValue, flagBit, flag_and_range_value_eq m flag sb eb h1 hw,
    bit_location_eq]

theorem get_downlink_format_eq (m : Msg) : T.get_downlink_format m = getDownlinkFormat m :=
  range_value_eq m 1 5 (by decide) (by decide)

/-- `ma_code`: the fourteen `(nibble, bit)` positions of the source, each contributing one bit below 2^16 -/
theorem ma_code_eq (m : Msg) : T.ma_code m = some (maCode m) := by
  have hb : ∀ x s : Nat, s ≤ 13 → shlW 16 (x % 2 % 65536) s = (x % 2) <<< s := by
    intro x s hs
    have h1 : x % 2 < 2 := Nat.mod_lt _ (by decide)
    have h2 : x % 2 % 65536 = x % 2 := Nat.mod_eq_of_lt (by omega)
    rw [h2]; apply shlW_of_lt
    have : x % 2 < 2 ^ 1 := by omega
    exact Nat.lt_of_lt_of_le (shl_lt (b := s) this) (Nat.pow_le_pow_right (by decide) (by omega))
  simp [T.ma_code, T.ma_code.bit_positions, maCode, Gen.maBitPositions, Gen.maTopShift, List.zipIdx, hb]


theorem extract_bit_eq (v b : Nat) : T.extract_bit v b = extractBit v b := rfl

theorem shl16_bit (v b s : Nat) (hs : s ≤ 10) : shlW 16 (extractBit v b) s = extractBit v b <<< s := by
  apply shlW_of_lt
  have h1 : extractBit v b ≤ 1 := by unfold extractBit; exact Nat.and_le_right
  have : extractBit v b < 2 ^ 1 := by omega
  exact Nat.lt_of_lt_of_le (shl_lt (b := s) this) (Nat.pow_le_pow_right (by decide) (by omega))

/-- the Gray loop of the code keeps its three variables in another order than the model's `grayLoop` -/
theorem gray_loop_eq (n : Nat) :
    ((List.range (16 + 1 - 1)).foldl (fun (st_ : Bool × Nat × Nat) (_ : Nat) =>
      let (cp, mask, result) := st_
      let cp := (if (n &&& mask) ≠ 0 then (let cp := !cp; cp) else cp)
      let result := (if cp = true then (let result := result ||| mask; result) else result)
      let mask := mask >>> 1
      (cp, mask, result)) (false, 0x80, 0)).2.2 = grayLoop n := by
  unfold grayLoop
  have := List.foldl_hom (fun (s : Nat × Bool × Nat) => (s.2.1, s.1, s.2.2))
    (g₁ := fun (st : Nat × Bool × Nat) (_ : Nat) =>
      let (mask, cp, result) := st
      let cp := if n &&& mask != 0 then !cp else cp
      let result := if cp then result ||| mask else result
      (mask >>> 1, cp, result))
    (g₂ := fun (st_ : Bool × Nat × Nat) (_ : Nat) =>
      let (cp, mask, result) := st_
      let cp := (if (n &&& mask) ≠ 0 then (let cp := !cp; cp) else cp)
      let result := (if cp = true then (let result := result ||| mask; result) else result)
      let mask := mask >>> 1
      (cp, mask, result))
    (l := List.range 16) (init := (0x80, false, 0))
    (by intro ⟨mask, cp, result⟩ _; simp)
  simp only [Nat.add_one_sub_one] at *
  rw [this]

theorem graytobin_eq (m : Msg) : T.graytobin m = graytobin m := by
  simp only [T.graytobin, ma_code_eq, graytobin, graytobinOfCode, extract_bit_eq, shl16_bit, Nat.le_refl, Nat.reduceLeDiff]
  simp only [gray_loop_eq]


/-! ### CRC: the `u32` registers of the code (naturals with a wrapping shift) against the `BitVec 32` registers of the model -/

theorem and_two_pow_ne_zero (x i : Nat) : (x &&& 2 ^ i ≠ 0) ↔ x.testBit i = true := by
  constructor
  · intro h
    apply Classical.byContradiction
    intro hb
    apply h
    apply Nat.eq_of_testBit_eq
    intro j
    rw [Nat.testBit_and, Nat.testBit_two_pow, Nat.zero_testBit]
    by_cases hij : i = j
    · subst hij; simp at hb; simp [hb]
    · simp [hij]
  · intro hb h
    have : (x &&& 2 ^ i).testBit i = true := by rw [Nat.testBit_and, Nat.testBit_two_pow_self, hb]; rfl
    rw [h, Nat.zero_testBit] at this
    exact Bool.noConfusion this

theorem msb_ofNat32 (x : Nat) : (BitVec.ofNat 32 x).msb = x.testBit 31 := by
  rw [BitVec.msb_eq_getLsbD_last, BitVec.getLsbD_ofNat]; simp

theorem crc_poly_eq : (0xFFFA0480 : Nat) = Gen.crcPolyNat := rfl

theorem shlW32_toNat (x : Nat) : shlW 32 x 1 = ((BitVec.ofNat 32 x) <<< 1).toNat := by
  simp only [shlW, BitVec.toNat_shiftLeft, BitVec.toNat_ofNat, Nat.shiftLeft_eq]
  rw [Nat.mod_mul_mod]

theorem xor_ofNat (x p : Nat) : BitVec.ofNat 32 (x ^^^ p) = BitVec.ofNat 32 x ^^^ BitVec.ofNat 32 p := by
  apply BitVec.eq_of_toNat_eq
  simp [BitVec.toNat_xor, Nat.xor_mod_two_pow]

/-- one round of the `crc56` loop -/
theorem crc56_step (x : Nat) :
    shlW 32 (if x &&& 0x80000000 ≠ 0 then x ^^^ 0xFFFA0480 else x) 1 = (crcStep56 (BitVec.ofNat 32 x)).toNat := by
  unfold crcStep56 crcPoly
  have e : (0x80000000 : Nat) = 2 ^ 31 := by decide
  rw [e, msb_ofNat32, ← crc_poly_eq]
  by_cases h : x.testBit 31 = true
  · have h' := (and_two_pow_ne_zero x 31).mpr h
    rw [if_pos h', if_pos h, shlW32_toNat, xor_ofNat]
  · have h' : ¬ (x &&& 2 ^ 31 ≠ 0) := fun c => h ((and_two_pow_ne_zero x 31).mp c)
    rw [if_neg h', if_neg h, shlW32_toNat]

theorem iter_succ_last {α : Type} (f : α → α) (n : Nat) (x : α) : iter f (n + 1) x = f (iter f n x) := by
  induction n generalizing x with
  | zero => rfl
  | succ n ih => rw [iter, ih]; rfl

theorem ofNat_toNat32 (b : BitVec 32) : BitVec.ofNat 32 b.toNat = b := by simp

theorem crc56_fold (n : Nat) (x : Nat) :
    (List.range (n + 1)).foldl (fun (d : Nat) (_ : Nat) => shlW 32 (if d &&& 0x80000000 ≠ 0 then d ^^^ 0xFFFA0480 else d) 1) x
      = (iter crcStep56 (n + 1) (BitVec.ofNat 32 x)).toNat := by
  induction n with
  | zero => simp only [Nat.zero_add, List.range_one, List.foldl_cons, List.foldl_nil, crc56_step]; rfl
  | succ n ih =>
    rw [List.range_succ, List.foldl_append, ih, iter_succ_last _ (n + 1)]
    simp only [List.foldl_cons, List.foldl_nil, crc56_step, ofNat_toNat32]

theorem crc56_eq (m : Msg) : T.crc56 m = crc56 m := by
  unfold T.crc56 crc56
  rw [range_value_eq m 1 32 (by decide) (by decide)]
  have := crc56_fold 31 ((rangeValue m 1 32).getD 0)
  simp only [Gen.crc56Rounds, BitVec.toNat_ushiftRight]
  simpa using congrArg (· >>> 8) this


/-- the register triple of `crc112` as naturals -/
def natsOf (s : Crc112State) : Nat × Nat × Nat := (s.data.toNat, s.data1.toNat, s.data2.toNat)
def stateOf (t : Nat × Nat × Nat) : Crc112State := ⟨BitVec.ofNat 32 t.1, BitVec.ofNat 32 t.2.1, BitVec.ofNat 32 t.2.2⟩

theorem stateOf_natsOf (s : Crc112State) : stateOf (natsOf s) = s := by
  cases s; simp [stateOf, natsOf]

/-- the loop body of `crc112` as the translator emits it -/
def crc112BodyT (st_ : Nat × Nat × Nat) : Nat × Nat × Nat :=
  let (data, data1, data2) := st_
  let data := (if data &&& 0x80000000 ≠ 0 then (let data := data ^^^ 0xFFFA0480; data) else data)
  let data := shlW 32 data 1
  let data := (if data1 &&& 0x80000000 ≠ 0 then (let data := data ||| 1; data) else data)
  let data1 := shlW 32 data1 1
  let data1 := (if data2 &&& 0x80000000 ≠ 0 then (let data1 := data1 ||| 1; data1) else data1)
  let data2 := shlW 32 data2 1
  (data, data1, data2)

theorem top_iff (x : Nat) : (x &&& 0x80000000 ≠ 0) ↔ (BitVec.ofNat 32 x).msb = true := by
  have e : (0x80000000 : Nat) = 2 ^ 31 := by decide
  rw [e, msb_ofNat32]; exact and_two_pow_ne_zero x 31

theorem crc112_step (t : Nat × Nat × Nat) : crc112BodyT t = natsOf (crcStep112 (stateOf t)) := by
  obtain ⟨a, b, c⟩ := t
  simp only [crc112BodyT, natsOf, crcStep112, stateOf, crcPoly, ← crc_poly_eq]
  have ha := top_iff a; have hb := top_iff b; have hc := top_iff c
  by_cases h1 : (BitVec.ofNat 32 a).msb = true <;> by_cases h2 : (BitVec.ofNat 32 b).msb = true <;>
    by_cases h3 : (BitVec.ofNat 32 c).msb = true <;>
    simp only [ha, hb, hc, h1, h2, h3, if_true, if_false, shlW32_toNat, xor_ofNat, BitVec.toNat_or, BitVec.toNat_ofNat,
      Bool.false_eq_true] <;> rfl

theorem crc112_fold (n : Nat) (t : Nat × Nat × Nat) :
    (List.range (n + 1)).foldl (fun st_ (_ : Nat) => crc112BodyT st_) t = natsOf (iter crcStep112 (n + 1) (stateOf t)) := by
  induction n with
  | zero => simp only [Nat.zero_add, List.range_one, List.foldl_cons, List.foldl_nil, crc112_step]; rfl
  | succ n ih =>
    rw [List.range_succ, List.foldl_append, ih, iter_succ_last _ (n + 1)]
    simp only [List.foldl_cons, List.foldl_nil, crc112_step, stateOf_natsOf]

theorem ofNat_shlW (x k : Nat) : BitVec.ofNat 32 (shlW 32 x k) = BitVec.ofNat 32 (x <<< k) := by
  apply BitVec.eq_of_toNat_eq; simp [shlW]

theorem crc112_eq (m : Msg) : T.crc112 m = crc112 m := by
  unfold T.crc112 crc112
  rw [range_value_eq m 1 32 (by decide) (by decide), range_value_eq m 33 64 (by decide) (by decide),
    range_value_eq m 65 88 (by decide) (by decide)]
  have := crc112_fold 87 ((rangeValue m 1 32).getD 0, (rangeValue m 33 64).getD 0,
    ((rangeValue m 65 88).map (fun x => shlW 32 x 8)).getD 0)
  have e2 : BitVec.ofNat 32 (((rangeValue m 65 88).map (fun x => shlW 32 x 8)).getD 0)
      = BitVec.ofNat 32 (((rangeValue m 65 88).getD 0) <<< 8) := by
    cases rangeValue m 65 88 <;> simp [ofNat_shlW]
  simp only [Gen.crc112Rounds, BitVec.toNat_ushiftRight]
  have h3 := congrArg (fun t => t.1 >>> 8) this
  simp only [natsOf, stateOf, e2] at h3
  rw [← h3]
  rfl

theorem get_crc_eq (m : Msg) (df : Nat) : T.get_crc m df = getCrc m df := by
  simp [T.get_crc, getCrc, crc56_eq, crc112_eq]


/-- `parity_ok` for every vector that can hold a PI field (the code computes `len - 23` in `u32`: shorter vectors trap) -/
theorem parity_ok_eq (m : Msg) (h6 : 6 ≤ m.length) (hl : m.length < 2 ^ 30) : T.parity_ok m = parityOk m := by
  have hlen : (m.length * 4) % 4294967296 = m.length * 4 := Nat.mod_eq_of_lt (by omega)
  have hr : T.range_value m (m.length * 4 - 23) (m.length * 4) = rangeValue m (m.length * 4 - 23) (m.length * 4) :=
    range_value_eq m _ _ (by omega) (by omega)
  simp only [T.parity_ok, parityOk, syndromeOf, hlen, hr, get_crc_eq, get_downlink_format_eq]
  cases hdf : getDownlinkFormat m with
  | none => rfl
  | some df =>
    by_cases h17 : df = 17
    · subst h17; simp
    · by_cases h18 : df = 18
      · subst h18; simp
      · by_cases h11 : df = 11
        · subst h11
          simp only [Nat.reduceEqDiff, or_self, if_false, if_true]
          cases (rangeValue m (m.length * 4 - 23) (m.length * 4)) <;> simp
        · simp only [h17, h18, h11, or_self, if_false]
          split <;> simp_all

/-- `clean_squitter` on the characters of a line: the digit sequence, then the length gate -/
theorem clean_squitter_eq (cs : List Char) : T.clean_squitter cs = cleanDigits (cs.filterMap charToDigit16) := by
  simp only [T.clean_squitter, cleanDigits]

/-- `char::to_digit(16)` of an ASCII byte is the model's `hexVal` of that byte -/
theorem charToDigit16_ofNat (b : Nat) (hb : b < 128) : charToDigit16 (Char.ofNat b) = hexVal b := by
  have : (Char.ofNat b).toNat = b := by
    have hv : b.isValidChar := Or.inl (by omega)
    simp [Char.ofNat, hv, Char.ofNatAux, Char.toNat]
  simp only [charToDigit16, hexVal, this]

/-- the digit sequence of a line of ASCII bytes is the same whether read as bytes (model) or as characters (code) -/
theorem hexDigits_ascii (line : List Nat) (h : ∀ b ∈ line, b < 128) :
    (line.map Char.ofNat).filterMap charToDigit16 = hexDigits line := by
  unfold hexDigits
  induction line with
  | nil => rfl
  | cons b bs ih =>
    have hb := charToDigit16_ofNat b (h b (by simp))
    have ih' := ih (fun x hx => h x (by simp [hx]))
    simp only [List.map_cons, List.filterMap_cons, hb, ih']


/-! ### the frame layer: `get_icao`, `get_message` (`Generated/TransFrame.lean`) -/

theorem get_icao_eq (m : Msg) (df : Nat) (h6 : 6 ≤ m.length) (hl : m.length < 2 ^ 30) : T.get_icao m df = getIcao m df := by
  have hlen : (m.length * 4) % 4294967296 = m.length * 4 := Nat.mod_eq_of_lt (by omega)
  have hr : T.range_value m (m.length * 4 - 23) (m.length * 4) = rangeValue m (m.length * 4 - 23) (m.length * 4) :=
    range_value_eq m _ _ (by omega) (by omega)
  simp only [T.get_icao, getIcao, hlen, hr, get_crc_eq, range_value_eq m 9 32 (by decide) (by decide)]

theorem filter4_congr {α : Type} (o : Option α) (p1 q1 p2 q2 p3 q3 p4 q4 : α → Bool)
    (h1 : ∀ a, p1 a = q1 a) (h2 : ∀ a, p2 a = q2 a) (h3 : ∀ a, q1 a = true → p3 a = q3 a) (h4 : ∀ a, q1 a = true → p4 a = q4 a) :
    (((o.filter p1).filter p2).filter p3).filter p4 = (((o.filter q1).filter q2).filter q3).filter q4 := by
  cases o with
  | none => rfl
  | some a =>
    have e1 := h1 a; have e2 := h2 a; have e3 := h3 a; have e4 := h4 a
    cases c1 : q1 a <;> cases c2 : q2 a <;> cases c3 : q3 a <;> simp_all [Option.filter]

/-- `get_message` on the characters of a line is the model's `messageOfDigits` of the line's digit sequence -/
theorem get_message_eq (cs : List Char) : T.get_message cs = messageOfDigits (cs.filterMap charToDigit16) := by
  unfold T.get_message messageOfDigits
  rw [clean_squitter_eq]
  apply filter4_congr
  · intro a; simp [Nat.beq_eq_true_eq, Bool.decide_or]; rfl
  · intro a; rw [get_downlink_format_eq]; unfold lengthMatchesDF; cases getDownlinkFormat a <;> simp
  · -- `reminder`: 0 in the code as in the model on every vector that passed the length filter
    intro a ha
    have hlen : a.length = 14 ∨ a.length = 28 := by simpa using ha
    rw [T_reminder_zero a (by omega), reminder_eq_zero a (by omega)]
  · intro a ha
    have hlen : a.length = 14 ∨ a.length = 28 := by simpa using ha
    exact parity_ok_eq a (by omega) (by rcases hlen with h | h <;> rw [h] <;> decide)

/-- the whole gate, end to end: on a line of ASCII bytes the code's `get_message` (characters, wrapping `u32` arithmetic,
    regenerated from the source) accepts exactly what the model's `getMessage` (bytes, unbounded naturals) accepts, and
    yields the same nibble vector.  Bytes >= 0x80 reach the code as the characters of the lossy UTF-8 decoding, none of
    which is an ASCII hex digit; that step (`String::from_utf8_lossy`) is exercised by the correspondence check, not proved. -/
theorem get_message_bytes (line : List Nat) (h : ∀ b ∈ line, b < 128) :
    T.get_message (line.map Char.ofNat) = getMessage line := by
  rw [get_message_eq, hexDigits_ascii line h]; rfl

end Sq.Bridge
