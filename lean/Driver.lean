/-
`sqdriver`: executes the model on an ops file (stdin) and prints canonical result lines (stdout).
The Rust harness executes the implementation on the same ops file; the orchestrator diffs.
Only I/O, parsing and printing live here; every decision is taken by `SqModel.Model.*`.
-/
import SqModel.Model.Table
import SqModel.Model.Render
import SqModel.Model.Tcp
import SqModel.Spec.All

open Sq

namespace Drv

def hexNib (c : Char) : Option Nat :=
  let n := c.toNat
  if 48 ≤ n ∧ n ≤ 57 then some (n - 48)
  else if 65 ≤ n ∧ n ≤ 70 then some (n - 55)
  else if 97 ≤ n ∧ n ≤ 102 then some (n - 87)
  else none

/-- "0a7f.." -> bytes -/
def parseHexBytes (s : String) : List Nat :=
  let rec go : List Char → List Nat → List Nat
    | a :: b :: rest, acc =>
      match hexNib a, hexNib b with
      | some x, some y => go rest ((x * 16 + y) :: acc)
      | _, _ => acc.reverse
    | _, acc => acc.reverse
  go s.toList []

def parseNibbles (s : String) : List Nat := s.toList.filterMap hexNib

def hexDigit (n : Nat) : Char := if n < 10 then Char.ofNat (48 + n) else Char.ofNat (55 + n)
def nibblesToHex (m : List Nat) : String := String.ofList (m.map hexDigit)

def optNat : Option Nat → String
  | some v => toString v
  | none => "-"
def optInt : Option Int → String
  | some v => toString v
  | none => "-"
def optChar : Option Char → String
  | some c => toString c.toNat
  | none => "-"
def optStr : Option (List Char) → String
  | some cs => "\"" ++ String.ofList cs ++ "\""
  | none => "-"
def boolS (b : Bool) : String := if b then "1" else "0"

/-- decimal rendering of a rational with `d` fractional digits (floor) -/
def ratDec (q : Rat) (d : Nat) : String :=
  let scaled : Int := (q * ((10 ^ d : Nat) : Rat)).floor
  let neg := scaled < 0
  let a := scaled.natAbs
  let ip := a / 10 ^ d
  let fp := a % 10 ^ d
  let fs := toString fp
  let pad := String.ofList (List.replicate (d - fs.length) '0')
  (if neg then "-" else "") ++ toString ip ++ "." ++ pad ++ fs

def optRat (d : Nat) : Option Rat → String
  | some q => ratDec q d
  | none => "-"

def ratToFloat (q : Rat) : Float := Float.ofInt q.num / Float.ofNat q.den

/-- Float -> Rat with 7 decimals (distance only; compared with tolerance) -/
def floatToRat7 (f : Float) : Rat :=
  let n : Int := if f < 0 then -((0 - f) * 1e7).floor.toUInt64.toNat else ((f * 1e7).floor.toUInt64.toNat : Int)
  (n : Rat) / 10000000

def pi : Float := 3.14159265358979323846264338327950288

def smFloat (v : SignedMag) : Float := if v.neg then -(Float.ofNat v.mag) else Float.ofNat v.mag

def atan2degF (x y : SignedMag) : Nat :=
  let deg := (Float.atan2 (smFloat x) (smFloat y)) * (180.0 / pi)
  ((deg.floor + 360.0).toUInt64.toNat) % 360

def haversineF (lat1 lon1 lat2 lon2 : Float) : Float :=
  let r := 6371.0
  let rad := fun (d : Float) => d * pi / 180.0
  let lat1 := rad lat1; let lon1 := rad lon1; let lat2 := rad lat2; let lon2 := rad lon2
  let dlat := lat2 - lat1
  let dlon := lon2 - lon1
  let a := (Float.sin (dlat / 2.0)) ^ 2.0 + Float.cos lat1 * Float.cos lat2 * (Float.sin (dlon / 2.0)) ^ 2.0
  let c := 2.0 * Float.atan2 (Float.sqrt a) (Float.sqrt (1.0 - a))
  r * c

def mkEnv (obs : Option (Rat × Rat)) : Env :=
  { atan2deg := atan2degF
    dist := obs.map fun o => fun lat lon =>
      floatToRat7 (haversineF (ratToFloat lat) (ratToFloat lon) (ratToFloat o.1) (ratToFloat o.2)) }

/-- plain decimal `[+-]?d+(.d*)?` after removing blanks; anything else is a parse error -/
def parseDecimal (s : String) : Option Rat :=
  let cs := s.toList.filter fun c => !c.isWhitespace
  let (neg, cs) := match cs with
    | '-' :: r => (true, r)
    | '+' :: r => (false, r)
    | r => (false, r)
  let ip := cs.takeWhile Char.isDigit
  let rest := cs.dropWhile Char.isDigit
  let digitsVal := fun (l : List Char) => l.foldl (fun a c => a * 10 + (c.toNat - 48)) 0
  match rest with
  | [] => if ip.isEmpty then none else
      let v : Rat := (digitsVal ip : Nat)
      some (if neg then -v else v)
  | '.' :: fr =>
    if !(fr.all Char.isDigit) ∨ (ip.isEmpty ∧ fr.isEmpty) then none else
      let v : Rat := ((digitsVal ip : Nat) : Rat) + ((digitsVal fr : Nat) : Rat) / ((10 ^ fr.length : Nat) : Rat)
      some (if neg then -v else v)
  | _ => none

/-- `set_observer_coords_from_str`: a string that does not parse leaves the observer as it was -/
def setObserver (cur : Option (Rat × Rat)) (s : String) : Option (Rat × Rat) :=
  match s.splitOn "," with
  | [a, b] =>
    match parseDecimal a, parseDecimal b with
    | some x, some y => some (x, y)
    | _, _ => cur
  | _ => cur

structure St where
  cfg : DecodeCfg := {}
  obs : Option (Rat × Rat) := none
  now : Int := 0
  table : Table := []
  seg : RState := {}
  view : ViewCfg := {}

def age (now : Int) (t : Int) : Int := (now - t) / 1000     -- floor (Int./ is floor for positive divisor)
def optAge (now : Int) : Option Int → String
  | some t => toString (age now t)
  | none => "-"

def insertSorted (kp : Nat × Plane) : List (Nat × Plane) → List (Nat × Plane)
  | [] => [kp]
  | x :: xs => if kp.1 ≤ x.1 then kp :: x :: xs else x :: insertSorted kp xs
def sortByKey (t : Table) : Table := t.foldl (fun acc kp => insertSorted kp acc) []

def rowLine (now : Int) (k : Nat) (p : Plane) : String :=
  String.intercalate " " [
    "row", toString k,
    "icao=" ++ toString p.icao,
    "cap0=" ++ toString p.cap0,
    "cap1=" ++ toString p.cap1.flags ++ "/" ++ boolS p.cap1.bds20 ++ boolS p.cap1.bds40 ++ boolS p.cap1.bds44 ++ boolS p.cap1.bds50 ++ boolS p.cap1.bds60,
    "cat=" ++ toString p.category.1 ++ "/" ++ toString p.category.2,
    "reg=" ++ p.reg,
    "ais=" ++ optStr p.ais,
    "alt=" ++ optNat p.altitude,
    "altg=" ++ optNat p.altitudeGnss,
    "alts=" ++ toString p.altitudeSource.toNat,
    "selalt=" ++ optNat p.selectedAltitude,
    "baro=" ++ optNat p.barometricPressureSetting,
    "tasrc=" ++ toString p.targetAltitudeSource.toNat,
    "squawk=" ++ optNat p.squawk,
    "ss=" ++ toString p.surveillanceStatus.toNat,
    "threat=" ++ optChar p.threatEncounter,
    "vrate=" ++ optInt p.vrate,
    "vrs=" ++ toString p.vrateSource.toNat,
    "cpr=" ++ toString p.cprLat0 ++ "/" ++ toString p.cprLat1 ++ "/" ++ toString p.cprLon0 ++ "/" ++ toString p.cprLon1,
    "cprage=" ++ toString (age now p.cprTime0) ++ "/" ++ toString (age now p.cprTime1),
    "lat=" ++ ratDec p.lat 10,
    "lon=" ++ ratDec p.lon 10,
    "dist=" ++ optRat 7 p.distance,
    "gs=" ++ optNat p.grspeed,
    "tas=" ++ optNat p.trueAirspeed,
    "ias=" ++ optNat p.indicatedAirspeed,
    "mach=" ++ optNat p.machRaw,
    "gm=" ++ optRat 4 p.groundMovement,
    "turn=" ++ toString p.turn,
    "track=" ++ optNat p.track,
    "trs=" ++ toString p.trackSource.toNat,
    "hdg=" ++ optNat p.heading,
    "hds=" ++ toString p.headingSource.toNat,
    "roll=" ++ optInt p.rollAngle,
    "tar=" ++ optInt p.trackAngleRate,
    "b50age=" ++ optAge now p.bds50Timestamp,
    "temp=" ++ optInt p.temperature,
    "wind=" ++ (match p.wind with | some w => toString w.1 ++ "/" ++ toString w.2 | none => "-"),
    "turb=" ++ optNat p.turbulence,
    "hum=" ++ optNat p.humidity,
    "pres=" ++ optNat p.pressure,
    "age=" ++ toString (age now p.timestamp),
    "posage=" ++ optAge now p.positionTimestamp,
    "trkage=" ++ optAge now p.trackTimestamp,
    "hdgage=" ++ optAge now p.headingTimestamp,
    "tc=" ++ toString p.lastTypeCode,
    "df=" ++ toString p.lastDf,
    "ver=" ++ optNat p.adsbVersion ]

def kv (line : List String) (key : String) : Option String :=
  line.findSome? fun tok =>
    match tok.splitOn "=" with
    | k :: rest => if k == key then some (String.intercalate "=" rest) else none
    | _ => none

def parseCfg (st : St) (toks : List String) : St :=
  let b := fun k d => match kv toks k with | some "1" => true | some "0" => false | _ => d
  let cfg : DecodeCfg :=
    { relaxed := b "relaxed" st.cfg.relaxed
      useUpdate := b "use_update" st.cfg.useUpdate
      countDf := b "count" st.cfg.countDf
      filter := match kv toks "filter" with
        | some "-" => none
        | some s => some ((s.splitOn ",").filterMap String.toNat?)
        | none => st.cfg.filter
      deleteAfter := match kv toks "delete_after" with
        | some s => s.toInt?.getD st.cfg.deleteAfter
        | none => st.cfg.deleteAfter }
  let obs := match kv toks "observer" with
    | some "-" => st.obs
    | some s => setObserver st.obs (s.replace "_" " ")
    | none => st.obs
  let view : ViewCfg :=
    { groups := match kv toks "groups" with | some s => s.toList | none => st.view.groups
      orderBy := match kv toks "order" with | some "-" => [] | some s => s.toList | none => st.view.orderBy }
  { st with cfg, obs, view }

def srtLine (v : Srt) : String :=
  "srt df=" ++ optNat v.df ++ " icao=" ++ optNat v.icao ++ " squawk=" ++ optNat v.squawk ++
  " cap=" ++ optNat v.capability ++ " alt=" ++ optNat v.altitude

def extLine (v : Ext) : String :=
  "ext df=" ++ optNat v.df ++ " icao=" ++ optNat v.icao ++ " cap=" ++ toString v.capability ++
  " tc=" ++ toString v.messageType.1 ++ " st=" ++ toString v.messageType.2 ++
  " ais=" ++ optStr v.ais ++
  " cat=" ++ (match v.category with | some c => toString c.1 ++ "/" ++ toString c.2 | none => "-") ++
  " cpr=" ++ (match v.cpr with | some c => toString c.1 ++ "/" ++ toString c.2.1 ++ "/" ++ toString c.2.2 | none => "-") ++
  " gm=" ++ optRat 4 v.groundMovement ++ " gs=" ++ optNat v.grspeed ++ " track=" ++ optNat v.track ++
  " trs=" ++ optChar v.trackSource ++ " hdg=" ++ optNat v.heading ++ " hds=" ++ optChar v.headingSource ++
  " alt=" ++ optNat v.altitude ++ " alts=" ++ optChar v.altitudeSource ++ " altd=" ++ optInt v.altitudeDelta ++
  " altg=" ++ optNat v.altitudeGnss ++ " vrate=" ++ optInt v.vrate ++ " vrs=" ++ optChar v.vrateSource ++
  " ss=" ++ optChar v.surveillanceStatus ++ " ver=" ++ optNat v.adsbVersion

/-- `q frame <digits>`: the public per-frame API on a nibble vector that passes the length gate -/
def qFrame (env : Env) (m : Msg) : String :=
  match getDownlinkFormat m with
  | none => "frame nodf"
  | some df =>
    let head := "frame df=" ++ toString df ++ " icao=" ++ optNat (getIcao m df) ++ " "
    match DFRec.fromMessage env m with
    | some (.srt v) => head ++ srtLine v
    | some (.ext v) => head ++ extLine v
    | some (.mds i) => head ++ "mds icao=" ++ optNat i
    | none => head ++ "none"

def qMsg (line : List Nat) : String :=
  match getMessage line with
  | none => "msg -"
  | some m => "msg " ++ nibblesToHex m

partial def loop (h : IO.FS.Stream) (out : IO.FS.Stream) (st : St) : IO Unit := do
  let line ← h.getLine
  if line.isEmpty then return ()
  let toks := (line.trimAscii.toString.splitOn " ").filter (· ≠ "")
  let env := mkEnv st.obs
  match toks with
  | "cfg" :: rest => loop h out (parseCfg st rest)
  | ["seg"] => loop h out { st with seg := { table := st.table } }
  | ["line", hx] =>
    let bytes := parseHexBytes hx
    -- a line of the ops file may itself contain newline bytes: the reader splits on them
    let seg := (splitLines bytes).foldl (stepLine env st.cfg st.now) st.seg
    loop h out { st with seg }
  | ["line"] => loop h out { st with seg := (splitLines []).foldl (stepLine env st.cfg st.now) st.seg }
  | ["end"] | ["endnolf"] =>
    -- "endnolf": the file ends without a line feed - the last piece is a line all the same (`splitLines`)
    out.putStrLn ("counts " ++ String.intercalate " " (st.seg.dfCount.map fun kc => "DF" ++ toString kc.1 ++ ":" ++ toString kc.2))
    loop h out { st with table := st.seg.table }
  | ["tcp", script] =>
    let steps := (script.splitOn ";").filter (· ≠ "")
    let events : List ConnEvent := steps.map fun s =>
      match s.splitOn ":" with
      | ["refuse"] => .refuse
      | ["close"] => .accept [] .eof
      | ["data", hx, "reset"] => .accept (parseHexBytes hx) .reset
      | ["data", hx, _] => .accept (parseHexBytes hx) .eof
      | ["data", hx, "reset", _] => .accept (parseHexBytes hx) .reset
      | ["data", hx, _, _] => .accept (parseHexBytes hx) .eof
      | _ => .accept [] .eof
    let r := tcpRun env st.cfg st.now st.table events
    let sleeps := (r.2.filter fun a => match a with | .sleep _ => true | _ => false).length
    out.putStrLn ("tcp sleeps=" ++ toString sleeps ++ " reads=" ++ toString (r.2.length - sleeps))
    loop h out { st with table := r.1 }
  | ["adv", ms] => loop h out { st with now := st.now + (ms.toInt?.getD 0) }
  | ["dump"] =>
    let rows := sortByKey st.table
    for (k, p) in rows do
      out.putStrLn (rowLine st.now k p)
    out.putStrLn ("enddump " ++ toString rows.length)
    loop h out st
  | ["q", "msg", hx] =>
    out.putStrLn (qMsg (parseHexBytes hx)); out.putStrLn (Spec.lineSpec (hexDigits (parseHexBytes hx))); loop h out st
  | ["q", "msg"] => out.putStrLn (qMsg []); out.putStrLn (Spec.lineSpec []); loop h out st
  | ["q", "frame", d] =>
    out.putStrLn (qFrame env (parseNibbles d)); out.putStrLn (Spec.frameSpec env (parseNibbles d)); loop h out st
  | ["case", n] => out.putStrLn ("case " ++ n); loop h out st
  | ["reset"] => loop h out { st with cfg := {}, now := 0, table := [], seg := {}, view := {} }
  | "q" :: kind :: args => out.putStrLn (Spec.query env kind args); loop h out st
  | ["render"] =>
    for l in renderTable st.view st.now st.table do out.putStrLn ("R|" ++ l)
    out.putStrLn "endrender"
    loop h out st
  | ["sweep", "country"] =>
    for l in Spec.countrySweep do out.putStrLn l
    for l in Spec.annexSweep do out.putStrLn l
    loop h out st
  | [] => loop h out st
  | _ => out.putStrLn ("bad-op " ++ line.trimAscii.toString); loop h out st

end Drv

def main : IO Unit := do
  let stdin ← IO.getStdin
  let stdout ← IO.getStdout
  Drv.loop stdin stdout {}
